#!/bin/bash
# run_check.sh <Cnn> quick|thorough      |  run_check.sh <Cnn> --replay <file>
cd "$(dirname "$0")"
exec python3 tools/vr.py "$@"
