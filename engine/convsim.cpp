// Conversation simulator — implementation.  See convsim.hpp / DESIGN.md §6.
#include "convsim.hpp"
#include "cache.hpp"
#include "judge.hpp"
#include "../shim/rtr_shim.h"

#include <cstdarg>
#include <cstdio>
#include <cstdlib>
#include <deque>
#include <pthread.h>
#include <semaphore.h>
#include <sstream>
#include <time.h>
#include <unordered_map>

extern "C" {
int __real_pthread_rwlock_wrlock(pthread_rwlock_t *);
int __real_pthread_rwlock_rdlock(pthread_rwlock_t *);
int __real_pthread_rwlock_unlock(pthread_rwlock_t *);
int __wrap_pthread_rwlock_wrlock(pthread_rwlock_t *);
int __wrap_pthread_rwlock_rdlock(pthread_rwlock_t *);
int __wrap_pthread_rwlock_unlock(pthread_rwlock_t *);
int __wrap_lrtr_get_monotonic_time(time_t *seconds);
unsigned int __wrap_sleep(unsigned int seconds);
void __wrap_lrtr_dbg(const char *frmt, ...);
}

namespace cs {

typedef std::set<int> IdSet;

struct MState {
	IdSet recs;
	bool have_session = false;
	uint16_t session = 0;
	uint32_t serial = 0;
	bool has_last = false;
	time_t last = 0;
	bool operator==(const MState &o) const
	{
		return recs == o.recs && have_session == o.have_session && (!have_session || (session == o.session && serial == o.serial)) &&
		       has_last == o.has_last && (!has_last || last == o.last);
	}
};

struct Pending {
	bool active = false;
	bool reset_query = true;
	bool can_succeed = false;
	bool maybe = false; // outcome not predictable (raw payload outside the universe): accept success, then go weak
	Verdict v;
	bool transport_fault = false; // a transport irregularity is planned inside / right after this response
	bool session_dropping = false; // fault-free Cache Reset / error code 2: the client must drop the session
	int downgrade_to = -1;	       // fault-free error code 4 with a lower supported version
	bool hangup_downgrade = false; // connection closed without any answer while no session exists
	bool hangup_partial = false;
	size_t resp_start = 0; // offset of the response in the connection's delivered stream
	size_t resp_len = 0;
	int reports = 0; // error reports sent by the client during this exchange
	bool expect_report = false;
	int code_a = -1, code_b = -1;
	bool tagged_stop = false; // single tagged violation and the cache stops after it: completeness applies
	MState before;
	uint32_t iv_before[3];
	int step_kind = -1, step_mut = -1;
	bool success_seen = false, alloc_failure_seen = false, chained = false;
	bool interrupted = false; // an EINTR was returned inside this exchange
	time_t t_query = 0;
	wire::Bytes offender;
};

struct Engine {
	Script sc;
	Options opt;
	Report rep;
	// real objects
	struct pfx_table pfx;
	struct spki_table *spki = nullptr;
	struct rtr_socket sock, other;
	struct tr_socket tr;
	// clock & budgets
	time_t now = 1000000;
	long calls_since_progress = 0, total_calls = 0;
	bool finish = false, stop_requested = false, thread_parked = false, hang = false;
	bool obs_stop = false;		    // the observation in progress follows an rtr_stop(): what is left is charged to C07
	bool expired_since_query = false; // an expiry purge was due at the last open(): records / first query are C07's business too
	// connection
	bool conn_open = false, peer_closed = false;
	int conn_no = 0;
	wire::Bytes inq;
	size_t inq_pos = 0;
	wire::Bytes delivered; // inbound bytes delivered on this connection
	wire::Bytes outbuf;    // partial outbound PDU
	bool send_fault_on_conn = false, out_is_query = false;
	std::string sent_log;
	bool m_first_pdu = true; // model: next inbound PDU is the first of its connection
	// script cursor
	std::vector<Step> steps;
	size_t step_idx = 0;
	Step cur;
	bool cur_valid = false, honest = false;
	int idle_cursor = 0;
	int open_fail_left = -1;
	long chunk_ctr = 0;
	size_t recv_fault_at = (size_t)-1; // absolute inq offset at which the planned transport fault fires
	int recv_fault_kind = 0;
	bool send_dead = false; // every write fails until the connection is closed (S_ERROR_STICKY)
	bool est_partial = false; size_t est_hdr_got = 0; // a PDU header is being delivered piecemeal while the client waits in ESTABLISHED
	size_t stray_left = 0; // bytes of a stray PDU (delivered in ESTABLISHED) the client has not read yet
	bool recv_fault_more = false; // the fault is an EINTR and the rest of the answer stays readable
	bool cut_after_queue = false;
	// cache
	Cache cache;
	// model
	std::vector<MState> alts;
	int m_version = 1;
	Pending pend;
	std::vector<std::array<uint32_t, 3>> iv_allowed;
	IdSet foreign;
	bool weak = false, hostile = false, may_downgrade = false, ts_desync = false, notify_recursion = false;
	// established-wait bookkeeping (C17 c)
	bool in_est_wait = false, est_first_recv = true, expect_query_next = false;
	size_t notify_pending_bytes = 0;
	// mirrors
	std::set<std::pair<int, int>> pfx_mirror, spki_mirror; // (id, src) src 0 = socket, 1 = foreign
	bool mirror_bad = false;
	std::string mirror_msg;
	// honest phase
	time_t honest_since = 0;
	long honest_bound = 0;
	bool honest_started = false;
	int honest_successes = 0, honest_queries = 0;
	// reader battery (C06 tier A / A', C04 downstream asserts)
	bool reload_active = false, in_battery = false;
	std::map<std::pair<int, int>, std::pair<int, int>> cb_ev; // (record id, source) -> ('added', 'removed') callbacks since the last query
	bool reload_cr = false; // the reload window was opened by a Cache Reset (stays open across NO_INCR_UPDATE_AVAIL -> RESET -> SYNC)
	std::vector<std::string> seq_pfx, seq_spki;
	pthread_t fsm_thread;
	pthread_t main_thread; // everything that is not the main thread is the socket's state-machine thread (one at a time)
	bool have_fsm_thread = false;
	int lock_depth = 0;
	long battery_samples = 0;
	// threads
	sem_t sem_main, sem_park, sem_mid;
	long midstop_countdown = 0; // C07: rtr_stop() arrives at the n-th transport call / table-lock release of the exchange in progress (cancellation disabled there)
	bool midstop_active = false, stop_in_progress = false;
	std::vector<int> state_seq;
	std::ostringstream trace;
	int n_success = 0, n_queries = 0;
	uint8_t dirty_pat = 0;
};

static Engine *E;

static std::string fnv_str(const std::string &s)
{
	uint64_t h = 1469598103934665603ULL;
	for (unsigned char c : s) { h ^= c; h *= 1099511628211ULL; }
	char b[20];
	snprintf(b, sizeof b, "%016llx", (unsigned long long)h);
	return b;
}

// ------------------------------------------------------------------------------------------------
// failure recording
// Records a failure.  Returns true if it ends the run (it is charged to the property under test, or no focus is set).
// A failure charged to ANOTHER property is only noted (that property's own check reports it): the caller then adopts
// what it observed into the model and the conversation goes on, so that consequences for the property under test
// (a wrong next query, data that never expires, a client that never re-converges ...) are still seen.
// `props` may name several properties ("C03,C07"): the failure violates a sentence of each of them, and a run for any of them reports it.
static bool fail(const std::string &props, const std::string &sig, const std::string &what)
{
	std::string prop = props.substr(0, props.find(','));
	if (!E->opt.focus.empty()) {
		bool mine = false;
		for (size_t i = 0; i < props.size();) {
			size_t j = props.find(',', i);
			if (j == std::string::npos) j = props.size();
			if (props.compare(i, j - i, E->opt.focus) == 0) mine = true;
			i = j + 1;
		}
		if (!mine) {
			E->rep.cls[std::string("failure-charged-to-another-property(") + props + ")"]++;
			if (E->rep.first_foreign.empty()) E->rep.first_foreign = props + ":" + sig + ": " + what;
			return false;
		}
		prop = E->opt.focus;
	}
	if (E->rep.ok) {
		E->rep.ok = false;
		E->rep.prop = prop;
		E->rep.sig = prop + ":" + sig;
		E->rep.what = what;
	}
	E->finish = true;
	return true;
}
static void model_off() // no adoption possible: switch the data model off for the rest of the conversation
{
	E->weak = true;
	E->ts_desync = true;
}
static void TR(const std::string &s)
{
	if (E->opt.trace && E->trace.tellp() < 6000) E->trace << "[t=" << (long)(E->now - 1000000) << "] " << s << "\n";
	static const bool live = getenv("VERIF_TRACE_LIVE") != nullptr;
	if (live) fprintf(stderr, "[t=%ld] %s\n", (long)(E->now - 1000000), s.c_str());
}
static void CLS(const char *c, long n = 1) { E->rep.cls[c] += n; }

// ------------------------------------------------------------------------------------------------
// counting / failing allocator (C18) and heap dirtying (C14 determinism)
struct Ledger {
	std::unordered_map<void *, long> live;
	long seq = 0, fail_at = 0;
	bool failed = false;
	long foreign_free = 0;
	uint8_t pat = 0;
	bool on = false;
};
static Ledger L;
static pthread_mutex_t Lmx = PTHREAD_MUTEX_INITIALIZER;

static void *l_malloc(size_t n)
{
	pthread_mutex_lock(&Lmx);
	long k = ++L.seq;
	if (L.fail_at && k == L.fail_at) { L.failed = true; pthread_mutex_unlock(&Lmx); return nullptr; }
	void *p = malloc(n ? n : 1);
	if (p) { memset(p, L.pat, n); L.live[p] = k; }
	pthread_mutex_unlock(&Lmx);
	return p;
}
static void l_free(void *p)
{
	if (!p) return;
	pthread_mutex_lock(&Lmx);
	auto it = L.live.find(p);
	if (it == L.live.end()) { L.foreign_free++; pthread_mutex_unlock(&Lmx); return; } // not ours: do not pass to free()
	L.live.erase(it);
	pthread_mutex_unlock(&Lmx);
	free(p);
}
static void *l_realloc(void *p, size_t n)
{
	if (!p) return l_malloc(n);
	pthread_mutex_lock(&Lmx);
	long k = ++L.seq;
	if (L.fail_at && k == L.fail_at) { L.failed = true; pthread_mutex_unlock(&Lmx); return nullptr; }
	auto it = L.live.find(p);
	if (it == L.live.end()) { L.foreign_free++; pthread_mutex_unlock(&Lmx); return nullptr; }
	void *q = realloc(p, n ? n : 1);
	if (q) { L.live.erase(p); L.live[q] = k; }
	pthread_mutex_unlock(&Lmx);
	return q;
}

// ------------------------------------------------------------------------------------------------
// table access
static struct pfx_record mk_pfx(int id, const struct rtr_socket *s)
{
	wire::URec u = wire::urec(id);
	struct pfx_record r;
	memset(&r, 0, sizeof r);
	r.asn = u.asn;
	r.min_len = u.len;
	r.max_len = u.maxlen;
	r.socket = s;
	if (u.kind == 0) {
		r.prefix.ver = LRTR_IPV4;
		r.prefix.u.addr4.addr = wire::get32(u.addr);
	} else {
		r.prefix.ver = LRTR_IPV6;
		for (int i = 0; i < 4; i++) r.prefix.u.addr6.addr[i] = wire::get32(u.addr + 4 * i);
	}
	return r;
}
static struct spki_record mk_key(int id, const struct rtr_socket *s)
{
	wire::URec u = wire::urec(id);
	struct spki_record r;
	memset(&r, 0, sizeof r);
	r.asn = u.asn;
	memcpy(r.ski, u.ski, 20);
	memcpy(r.spki, u.spki, 91);
	r.socket = s;
	return r;
}
static int pfx_to_id(const struct pfx_record *r)
{
	uint8_t p[32] = {0};
	if (r->prefix.ver == LRTR_IPV4) {
		p[1] = wire::IPV4_PREFIX;
		p[9] = r->min_len; p[10] = r->max_len;
		uint32_t a = r->prefix.u.addr4.addr;
		p[12] = a >> 24; p[13] = a >> 16; p[14] = a >> 8; p[15] = a;
		uint32_t as = r->asn;
		p[16] = as >> 24; p[17] = as >> 16; p[18] = as >> 8; p[19] = as;
		return pdu_to_id(p, 20, IdSet());
	}
	p[1] = wire::IPV6_PREFIX;
	p[9] = r->min_len; p[10] = r->max_len;
	for (int i = 0; i < 4; i++) { uint32_t a = r->prefix.u.addr6.addr[i]; p[12 + 4 * i] = a >> 24; p[13 + 4 * i] = a >> 16; p[14 + 4 * i] = a >> 8; p[15 + 4 * i] = a; }
	uint32_t as = r->asn;
	p[28] = as >> 24; p[29] = as >> 16; p[30] = as >> 8; p[31] = as;
	return pdu_to_id(p, 32, IdSet());
}
static int key_to_id(const struct spki_record *r)
{
	uint8_t p[123] = {0};
	p[1] = wire::ROUTER_KEY;
	memcpy(p + 8, r->ski, 20);
	p[28] = r->asn >> 24; p[29] = r->asn >> 16; p[30] = r->asn >> 8; p[31] = r->asn;
	memcpy(p + 32, r->spki, 91);
	return pdu_to_id(p, 123, IdSet());
}

struct Snapshot {
	IdSet mine, theirs;
	int unknown = 0; // records outside the universe or with an unknown source
	std::set<std::pair<int, int>> all;
};
static void snap_cb(const struct pfx_record *r, void *d)
{
	Snapshot *s = (Snapshot *)d;
	int id = pfx_to_id(r);
	int src = r->socket == &E->sock ? 0 : r->socket == &E->other ? 1 : -1;
	if (id < 0 || src < 0) { s->unknown++; return; }
	(src == 0 ? s->mine : s->theirs).insert(id);
	if (!s->all.insert({id, src}).second) s->unknown++; // duplicate in enumeration
}
static Snapshot snapshot()
{
	Snapshot s;
	struct NoFail { long save; bool ib; NoFail() : save(L.fail_at), ib(E->in_battery) { L.fail_at = 0; E->in_battery = true; } ~NoFail() { L.fail_at = save; E->in_battery = ib; } } nofail; // (in_battery: the lock wrappers ignore the harness's own table accesses) // the harness's own lookups are not fault targets
	pfx_table_for_each_ipv4_record(&E->pfx, snap_cb, &s);
	pfx_table_for_each_ipv6_record(&E->pfx, snap_cb, &s);
	for (int k = 0; k < 3; k++) {
		wire::URec u = wire::urec(40 + k);
		struct spki_record *res = nullptr;
		unsigned int n = 0;
		spki_table_search_by_ski(E->spki, u.ski, &res, &n);
		for (unsigned i = 0; i < n; i++) {
			int id = key_to_id(&res[i]);
			int src = res[i].socket == &E->sock ? 0 : res[i].socket == &E->other ? 1 : -1;
			if (id < 0 || src < 0) { s.unknown++; continue; }
			(src == 0 ? s.mine : s.theirs).insert(id);
			if (!s.all.insert({id, src}).second) s.unknown++;
		}
		lrtr_free(res);
	}
	if (shim_spki_count(E->spki) != (unsigned)std::count_if(s.all.begin(), s.all.end(), [](const std::pair<int, int> &p) { return wire::is_key(p.first); }))
		s.unknown++;
	return s;
}

// Records attributed to the client's socket, counted without the universe mapping (usable in weak conversations too).
static void raw_cb(const struct pfx_record *r, void *d) { if (r->socket == &E->sock) ++*(long *)d; }
static long raw_count_mine()
{
	struct NoFail { long save; bool ib; NoFail() : save(L.fail_at), ib(E->in_battery) { L.fail_at = 0; E->in_battery = true; } ~NoFail() { L.fail_at = save; E->in_battery = ib; } } nofail; // (in_battery: the lock wrappers ignore the harness's own table accesses)
	long n = 0;
	pfx_table_for_each_ipv4_record(&E->pfx, raw_cb, &n);
	pfx_table_for_each_ipv6_record(&E->pfx, raw_cb, &n);
	for (int k = 0; k < 3; k++) {
		wire::URec u = wire::urec(40 + k);
		struct spki_record *res = nullptr;
		unsigned int cnt = 0;
		spki_table_search_by_ski(E->spki, u.ski, &res, &cnt);
		for (unsigned i = 0; i < cnt; i++) if (res[i].socket == &E->sock) n++;
		lrtr_free(res);
	}
	return n;
}

static std::string ids(const IdSet &s)
{
	std::ostringstream o;
	o << "{";
	int n = 0;
	for (int i : s) { if (n++) o << ","; if (n > 24) { o << "..."; break; } o << i; }
	o << "}(" << s.size() << ")";
	return o.str();
}

static void sample_battery();
// update callbacks -> mirrors (C09 / C10 in conversations)
static void pfx_cb(struct pfx_table *t, const struct pfx_record rec, const bool added)
{
	if (!E || t != &E->pfx) return;
	int id = pfx_to_id(&rec);
	int src = rec.socket == &E->sock ? 0 : rec.socket == &E->other ? 1 : -1;
	if (id < 0 || src < 0) { if (!E->weak && !E->mirror_bad) { E->mirror_bad = true; E->mirror_msg = "prefix callback for a record nobody announced"; } return; }
	if (E->reload_active && E->lock_depth == 0 && !pthread_equal(pthread_self(), E->main_thread)) sample_battery(); // some paths notify while holding the table lock
	(added ? E->cb_ev[{id, src}].first : E->cb_ev[{id, src}].second)++;
	bool ok = added ? E->pfx_mirror.insert({id, src}).second : E->pfx_mirror.erase({id, src}) == 1;
	if (!ok && !E->mirror_bad) {
		E->mirror_bad = true;
		E->mirror_msg = std::string("prefix callback '") + (added ? "added" : "removed") + "' repeated/spurious for record id " + std::to_string(id) + (src ? " (foreign source)" : "");
	}
}
static void spki_cb(struct spki_table *t, const struct spki_record rec, const bool added)
{
	if (!E || t != E->spki) return;
	int id = key_to_id(&rec);
	int src = rec.socket == &E->sock ? 0 : rec.socket == &E->other ? 1 : -1;
	if (id < 0 || src < 0) { if (!E->weak && !E->mirror_bad) { E->mirror_bad = true; E->mirror_msg = "router-key callback for a key nobody announced"; } return; }
	if (E->reload_active && E->lock_depth == 0 && !pthread_equal(pthread_self(), E->main_thread)) sample_battery();
	(added ? E->cb_ev[{id, src}].first : E->cb_ev[{id, src}].second)++;
	bool ok = added ? E->spki_mirror.insert({id, src}).second : E->spki_mirror.erase({id, src}) == 1;
	if (!ok && !E->mirror_bad) {
		E->mirror_bad = true;
		E->mirror_msg = std::string("router-key callback '") + (added ? "added" : "removed") + "' repeated/spurious for key id " + std::to_string(id) + (src ? " (foreign source)" : "");
	}
}

} // namespace cs

#include "convsim_battery.inc"
#include "convsim_model.inc"
#include "convsim_mock.inc"
#include "convsim_run.inc"
