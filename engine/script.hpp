// Conversation scripts: what the simulated cache and the simulated transport do.
// One Step is consumed per query the client completes; when the steps are used up the cache is
// honest.  A script is plain data: rapidcheck builds it structurally, libFuzzer decodes it from
// bytes (every byte string decodes to some script), replay files carry its text form.
#pragma once
#include "wire.hpp"
#include <sstream>

namespace cs {

enum Kind { K_CORRECT = 0, K_CACHE_RESET = 1, K_ERROR = 2, K_NOANSWER = 3, K_FAULTY = 4, K_V0 = 5, K_HOSTILE = 6, K_RAW = 7, K_N = 8 };
enum Mut {
	M_DUP_ANNOUNCE = 0, M_WITHDRAW_UNKNOWN, M_BAD_FLAGS, M_SESSION_CR, M_SESSION_EOD, M_WRONG_VERSION, M_UNKNOWN_TYPE,
	M_LEN_SMALL, M_LEN_BIG, M_LEN_INCONSISTENT, M_UNEXPECTED_TYPE, M_EOD_OTHER_FORMAT, M_TRUNCATE, M_RECV_FAULT, M_ANN_THEN_WD, M_PREFIX_BADVER, M_N
};
enum Idle { I_TIMEOUT = 0, I_INTR = 1, I_CLOSE = 2, I_ERROR = 3, I_NOTIFY = 4, I_STOP_RESTART = 5, I_LATE_INTR = 6, I_STOP_MIDSYNC = 7, I_STRAY = 8, I_PARTIAL_NOTIFY = 9, I_N = 10 }; // PARTIAL_NOTIFY: only the first 1..7 bytes of a Serial Notify arrive while the client waits in ESTABLISHED; // STRAY: a PDU other than a Serial Notify arrives while the client waits in ESTABLISHED; // LATE_INTR: EINTR one second after the deadline; STOP_MIDSYNC (in slot 1 or 2): rtr_stop() while the answer of this step is being received / applied (as an idle action: a plain timeout)
enum SendMode { S_OK = 0, S_PARTIAL = 1, S_ERROR = 2, S_WOULDBLOCK = 3, S_INTR = 4, S_PARTIAL_THEN_ERROR = 5, S_SLOW_PARTIAL = 6, S_PARTIAL_THEN_INTR = 7, S_ERROR_STICKY = 8, S_N = 9 }; // ERROR_STICKY: every write fails until the connection is closed; // SLOW_PARTIAL: blocks for the send timeout, then takes 1..3 bytes; PARTIAL_THEN_INTR: takes 3 bytes, the next write is interrupted (nothing is lost)

// interval value table used for EOD fields and for the configuration (index -> seconds)
static const uint32_t IV_TABLE[] = {
	/* generic */ 0, 1, 2, 599, 600, 601, 3600, 7199, 7200, 7201, 86399, 86400, 86401, 172799, 172800, 172801, 0xffffffffu, 30, 300, 900};
static const int IV_N = sizeof(IV_TABLE) / sizeof(IV_TABLE[0]);
// time consumed inside one open() call
static const uint32_t DELAY_TABLE[] = {0, 1, 30, 599, 601, 3700, 7300, 90000, 180000};
static const int DELAY_N = sizeof(DELAY_TABLE) / sizeof(DELAY_TABLE[0]);
// valid configuration values (rtr_init rejects anything outside the RFC 8210 ranges)
static const uint32_t CFG_REFRESH[] = {3600, 1, 2, 30, 300, 900, 86400};
static const uint32_t CFG_EXPIRE[] = {7200, 600, 601, 900, 3700, 172800};
static const uint32_t CFG_RETRY[] = {600, 1, 2, 30, 7200};
static const uint32_t SERIAL_BASE[] = {0, 1, 5, 0x7ffffffe, 0x7fffffff, 0xfffffffd, 0xfffffffe, 0xffffffffu, 1000000};
static const int SERIAL_N = sizeof(SERIAL_BASE) / sizeof(SERIAL_BASE[0]);

struct Step {
	int open_fails = 0, open_delay = 0, send_mode = 0;
	int advance = 0;
	uint64_t toggle = 0;
	int bulk = 0, new_session = 0;
	int kind = 0, mut = 0, pos = 0, keep = 0; // keep: after a protocol fault keep sending the rest
	int mut2 = -1, pos2 = 0;		   // optional second mutation (applied first)
	int err_code = 0, err_ver = 1, err_flags = 0;
	int ver_byte = 0;
	int iv[3] = {6, 0, 8}; // indices into IV_TABLE: refresh, retry, expire
	int order = 0, chunk = 0, notify_prefix = 0;
	int idle[3] = {0, 0, 0};
	int fault_off = 0; // byte offset for M_TRUNCATE / M_RECV_FAULT, fault kind taken from idle[0]
	wire::Bytes raw;
};

struct Script {
	int refresh = 6, expire = 8, retry = 1; // indices into IV_TABLE restricted to valid config values by the decoder
	int ivmode = 2;
	int session = 0x1234, serial_base = 2;
	uint64_t v0mask = 0x00000f0f0f0f0f0full, foreign = 0;
	int v0bulk = 0;
	int dirty = 0; // stack/heap dirtying pattern selector (0x00 / 0xFF)
	std::vector<Step> steps;
};

inline std::string to_text(const Script &s)
{
	std::ostringstream o;
	o << "hdr " << s.refresh << " " << s.expire << " " << s.retry << " " << s.ivmode << " " << s.session << " " << s.serial_base << " " << s.v0mask
	  << " " << s.foreign << " " << s.v0bulk << " " << s.dirty << "\n";
	for (auto &t : s.steps) {
		o << "step " << t.open_fails << " " << t.open_delay << " " << t.send_mode << " " << t.advance << " " << t.toggle << " " << t.bulk << " "
		  << t.new_session << " " << t.kind << " " << t.mut << " " << t.pos << " " << t.keep << " " << t.err_code << " " << t.err_ver << " "
		  << t.err_flags << " " << t.ver_byte << " " << t.iv[0] << " " << t.iv[1] << " " << t.iv[2] << " " << t.order << " " << t.chunk << " "
		  << t.notify_prefix << " " << t.idle[0] << " " << t.idle[1] << " " << t.idle[2] << " " << t.fault_off << " "
		  << t.mut2 << " " << t.pos2 << " " << (t.raw.empty() ? std::string("-") : wire::hex(t.raw)) << "\n";
	}
	return o.str();
}

inline Script from_text(const std::string &txt)
{
	Script s;
	std::istringstream in(txt);
	std::string l;
	while (std::getline(in, l)) {
		if (l.empty() || l[0] == '#') continue;
		std::istringstream ls(l);
		std::string w;
		ls >> w;
		if (w == "hdr") ls >> s.refresh >> s.expire >> s.retry >> s.ivmode >> s.session >> s.serial_base >> s.v0mask >> s.foreign >> s.v0bulk >> s.dirty;
		else if (w == "step") {
			Step t;
			std::string raw;
			ls >> t.open_fails >> t.open_delay >> t.send_mode >> t.advance >> t.toggle >> t.bulk >> t.new_session >> t.kind >> t.mut >> t.pos >>
				t.keep >> t.err_code >> t.err_ver >> t.err_flags >> t.ver_byte >> t.iv[0] >> t.iv[1] >> t.iv[2] >> t.order >> t.chunk >>
				t.notify_prefix >> t.idle[0] >> t.idle[1] >> t.idle[2] >> t.fault_off >> t.mut2 >> t.pos2 >> raw;
			if (raw != "-" && !raw.empty()) t.raw = wire::unhex(raw);
			s.steps.push_back(t);
		}
	}
	return s;
}

// Byte decoder for coverage-guided fuzzing: total, every input decodes to a script.
struct ByteReader {
	const uint8_t *p;
	size_t n, i = 0;
	ByteReader(const uint8_t *d, size_t sz) : p(d), n(sz) {}
	uint8_t u8() { return i < n ? p[i++] : 0; }
	uint16_t u16() { uint16_t a = u8(); return (uint16_t)(a << 8 | u8()); }
	uint64_t u64() { uint64_t v = 0; for (int k = 0; k < 8; k++) v = v << 8 | u8(); return v; }
	bool more() const { return i < n; }
};

inline Script from_bytes(const uint8_t *data, size_t size)
{
	ByteReader r(data, size);
	Script s;
	s.refresh = r.u8();
	s.expire = r.u8();
	s.retry = r.u8();
	s.ivmode = r.u8() % 4;
	s.session = r.u16();
	s.serial_base = r.u8() % SERIAL_N;
	s.v0mask = r.u64();
	s.foreign = r.u64();
	s.v0bulk = 0;
	s.dirty = r.u8() & 1;
	while (r.more() && s.steps.size() < 24) {
		Step t;
		uint8_t a = r.u8();
		t.kind = a % K_N;
		uint8_t b = r.u8();
		t.open_fails = b & 3;
		t.open_delay = (b >> 2) % DELAY_N;
		uint8_t c = r.u8();
		t.send_mode = (c & 0x0f) < 8 ? 0 : (c & 0x0f) - 7; // mostly OK
		t.advance = ((c >> 4) & 3) + ((a >> 6) == 3 ? 3 : 0);
		t.new_session = (c >> 6) == 3;
		t.toggle = r.u64();
		t.mut = r.u8() % M_N;
		t.pos = r.u8();
		uint8_t d = r.u8();
		t.keep = d & 1;
		t.err_flags = ((d >> 1) & 3) | ((d >> 5) & 4);
		t.notify_prefix = (d >> 3) & 1;
		t.chunk = (d >> 4) & 3;
		t.order = r.u8();
		t.err_code = r.u8();
		t.err_ver = r.u8();
		t.bulk = t.err_ver >= 200 ? t.err_ver % 9 : 0; // (cache data with more than 100 records of a kind)
		t.ver_byte = r.u8();
		for (int k = 0; k < 3; k++) t.iv[k] = r.u8() % IV_N;
		uint8_t e = r.u8();
		t.idle[0] = e % I_N;
		t.idle[1] = (e / I_N) % I_N;
		t.idle[2] = (e / (I_N * I_N)) % I_N;
		t.fault_off = r.u8();
		uint8_t f = r.u8();
		t.mut2 = (f & 0x80) ? (f & 0x7f) % M_N : -1;
		t.pos2 = r.u8();
		if (t.kind == K_RAW) {
			size_t len = r.u16() % 600;
			for (size_t k = 0; k < len && r.more(); k++) t.raw.push_back(r.u8());
		}
		s.steps.push_back(t);
	}
	return s;
}


// Inverse of from_bytes (up to the fields the byte form cannot express): used to seed the fuzzing corpus from structured scripts.
inline wire::Bytes to_bytes(const Script &s)
{
	wire::Bytes b;
	auto u8 = [&](int v) { b.push_back((uint8_t)v); };
	auto u64 = [&](uint64_t v) { for (int k = 7; k >= 0; k--) b.push_back((uint8_t)(v >> (8 * k))); };
	u8(s.refresh); u8(s.expire); u8(s.retry); u8(s.ivmode & 3);
	u8((s.session >> 8) & 0xff); u8(s.session & 0xff);
	u8(s.serial_base % SERIAL_N);
	u64(s.v0mask); u64(s.foreign);
	u8(s.dirty & 1);
	for (auto &t : s.steps) {
		int adv = t.advance % 6;
		u8((adv >= 3 ? 0xC0 : 0) | (t.kind % K_N)); // K_N == 8 divides 0xC0, so kind = a % K_N survives
		u8((t.open_fails & 3) | ((t.open_delay % DELAY_N) << 2));
		int sm = t.send_mode % S_N;
		u8((sm == 0 ? 0 : (sm + 7)) | ((adv % 3) << 4) | (t.new_session ? 0xC0 : 0));
		u64(t.toggle);
		u8(t.mut % M_N); u8(t.pos);
		u8((t.keep & 1) | ((t.err_flags & 3) << 1) | ((t.notify_prefix & 1) << 3) | ((t.chunk & 3) << 4) | ((t.err_flags & 4) ? 0x80 : 0));
		u8(t.order); u8(t.err_code); u8(t.err_ver); u8(t.ver_byte);
		for (int k = 0; k < 3; k++) u8(((t.iv[k] % IV_N) + IV_N) % IV_N);
		u8((t.idle[0] % I_N) + I_N * (t.idle[1] % I_N) + I_N * I_N * (t.idle[2] % I_N));
		u8(t.fault_off);
		u8(t.mut2 >= 0 ? (0x80 | (t.mut2 % M_N)) : 0);
		u8(t.pos2);
		if (t.kind % K_N == K_RAW) {
			size_t n = t.raw.size() % 600;
			u8((int)(n >> 8)); u8((int)(n & 0xff));
			b.insert(b.end(), t.raw.begin(), t.raw.begin() + n);
		}
	}
	return b;
}

} // namespace cs
