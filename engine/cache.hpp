// The scripted cache: data versions, serial history, response construction and mutation.
#pragma once
#include "script.hpp"
#include <algorithm>
#include <map>
#include <set>

namespace cs {

struct Cache {
	uint16_t session = 0;
	uint32_t serial = 0;
	std::set<int> cur;
	std::map<uint32_t, std::set<int>> hist; // serial -> data set (last few versions)
	int restarts = 0;

	static std::set<int> from_mask(uint64_t m, int bulk)
	{
		std::set<int> s;
		for (int i = 0; i < wire::N_UREC; i++)
			if (m >> i & 1) s.insert(i);
		for (int i = 0; i < bulk; i++) s.insert(1000 + i);
		return s;
	}
	void init(uint16_t sess, uint32_t ser, uint64_t mask, int bulk)
	{
		session = sess;
		serial = ser;
		cur = from_mask(mask, bulk);
		hist.clear();
		hist[serial] = cur;
	}
	// bulk >= 0: replace the bulk records by `bulk` records of each family in `fam` (bit 0 IPv4, bit 1 IPv6, bit 2 router keys)
	void advance(uint64_t toggle, int bulk, int fam = 1)
	{
		for (int i = 0; i < wire::N_UREC; i++)
			if (toggle >> i & 1) {
				if (!cur.erase(i)) cur.insert(i);
			}
		if (bulk >= 0) {
			for (auto it = cur.lower_bound(1000); it != cur.end();) it = cur.erase(it);
			for (int i = 0; i < bulk; i++) {
				if (fam & 1) cur.insert(wire::BULK4 + i);
				if (fam & 2) cur.insert(wire::BULK6 + i);
				if (fam & 4) cur.insert(wire::BULKK + i);
			}
		}
		serial++;
		hist[serial] = cur;
		while (hist.size() > 4) {
			// drop the oldest (by distance from the current serial, wrap-around aware)
			uint32_t worst = serial;
			uint32_t wd = 0;
			for (auto &kv : hist) {
				uint32_t d = serial - kv.first;
				if (d >= wd) { wd = d; worst = kv.first; }
			}
			hist.erase(worst);
		}
	}
	void restart(uint16_t new_session, uint32_t new_serial)
	{
		session = new_session;
		serial = new_serial;
		hist.clear();
		hist[serial] = cur;
		restarts++;
	}
};

struct OutPdu {
	wire::Bytes b;
	int id = -1;	// payload: universe id
	int flags = -1; // payload flags
	bool payload = false;
};

inline uint32_t lcg(uint32_t &x) { x = x * 1664525u + 1013904223u; return x >> 8; }

// data set as served at protocol version `ver` (version 0 has no router keys)
inline std::set<int> served(const std::set<int> &s, int ver)
{
	if (ver != 0) return s;
	std::set<int> r;
	for (int id : s)
		if (!wire::is_key(id)) r.insert(id);
	return r;
}

// The protocol-correct answer of the cache to a query.
inline std::vector<OutPdu> correct_response(const Cache &c, bool reset_query, uint16_t q_session, uint32_t q_serial, int ver, uint32_t order_seed,
					    const uint32_t iv[3], bool *is_cache_reset)
{
	std::vector<OutPdu> out;
	*is_cache_reset = false;
	std::vector<std::pair<int, int>> pl; // (id, flags)
	if (reset_query) {
		for (int id : served(c.cur, ver)) pl.push_back({id, 1});
	} else {
		auto it = c.hist.find(q_serial);
		if (q_session != c.session || it == c.hist.end()) {
			OutPdu p;
			p.b = wire::cache_reset(ver);
			out.push_back(p);
			*is_cache_reset = true;
			return out;
		}
		std::set<int> from = served(it->second, ver), to = served(c.cur, ver);
		for (int id : from) if (!to.count(id)) pl.push_back({id, 0});
		for (int id : to) if (!from.count(id)) pl.push_back({id, 1});
	}
	// deterministic shuffle (announcements and withdrawals of distinct records commute)
	uint32_t x = order_seed * 2654435761u + 12345;
	if (order_seed)
		for (size_t i = pl.size(); i > 1; i--) std::swap(pl[i - 1], pl[lcg(x) % i]);
	OutPdu cr;
	cr.b = wire::cache_response(ver, c.session);
	out.push_back(cr);
	for (auto &pr : pl) {
		OutPdu p;
		p.b = wire::payload_pdu(ver, pr.first, pr.second);
		p.id = pr.first;
		p.flags = pr.second;
		p.payload = true;
		out.push_back(p);
	}
	OutPdu e;
	e.b = wire::eod(ver, c.session, c.serial, iv[0], iv[1], iv[2]);
	out.push_back(e);
	return out;
}

// Apply one mutation to a correct response.  `held` = records the client holds (delta base; empty for a reset exchange).
// Returns false if the mutation could not be placed (response left unchanged).
inline bool mutate(std::vector<OutPdu> &r, int mut, int pos, int ver, const std::set<int> &held, bool reset_query, int ver_byte, uint32_t seed)
{
	if (r.empty()) return false;
	std::vector<size_t> pay;
	for (size_t i = 0; i < r.size(); i++) if (r[i].payload) pay.push_back(i);
	size_t n = r.size();
	bool has_cr = r[0].b[1] == wire::CACHE_RESPONSE;
	auto insert_at = [&](size_t idx, OutPdu p) { r.insert(r.begin() + std::min(idx, r.size()), p); };
	auto payload_slot = [&]() -> size_t { // an index inside the payload section (after CR, before EOD)
		if (!has_cr || n < 2) return n;
		return 1 + (size_t)pos % (n - 1);
	};
	// set of records as of a given slot is not tracked exactly: the judge decides what really is a fault
	switch (mut) {
	case M_DUP_ANNOUNCE: {
		if (!has_cr) return false;
		int id = -1;
		if (!reset_query && !held.empty()) { auto it = held.begin(); std::advance(it, seed % held.size()); id = *it; }
		if (id < 0) { // any announcement of the response (not always the first one: the duplicate may be a prefix of either family or a router key)
			std::vector<int> ann;
			for (size_t i : pay) if (r[i].flags == 1) ann.push_back(r[i].id);
			if (!ann.empty()) id = ann[(seed / 3) % ann.size()];
		}
		if (id < 0) id = (int)(seed % wire::N_UREC);
		if (ver == 0 && wire::is_key(id)) id = 0;
		OutPdu p; p.b = wire::payload_pdu(ver, id, 1); p.id = id; p.flags = 1; p.payload = true;
		bool in_resp = false;
		for (size_t i : pay) if (r[i].id == id && r[i].flags == 1) in_resp = true;
		bool was_held = !reset_query && held.count(id);
		if (!in_resp && !was_held) insert_at(r.size() - 1, p); // announce twice
		insert_at(r.size() - 1, p);
		return true;
	}
	case M_WITHDRAW_UNKNOWN: {
		if (!has_cr) return false;
		int id = -1;
		for (int k = 0; k < wire::N_UREC; k++) {
			int c = (int)((seed + k) % wire::N_UREC);
			if (ver == 0 && wire::urec(c).kind == 2) continue;
			bool touched = false;
			for (size_t i : pay) if (r[i].id == c) touched = true;
			if (!touched && (reset_query || !held.count(c))) { id = c; break; }
		}
		if (id < 0) return false;
		OutPdu p; p.b = wire::payload_pdu(ver, id, 0); p.id = id; p.flags = 0; p.payload = true;
		insert_at(payload_slot(), p);
		return true;
	}
	case M_ANN_THEN_WD: { // valid: announce X, withdraw X for an X that is absent and untouched
		if (!has_cr) return false;
		int id = -1;
		for (int k = 0; k < wire::N_UREC; k++) {
			int c = (int)((seed + k) % wire::N_UREC);
			if (ver == 0 && wire::urec(c).kind == 2) continue;
			bool touched = false;
			for (size_t i : pay) if (r[i].id == c) touched = true;
			if (!touched && (reset_query || !held.count(c))) { id = c; break; }
		}
		if (id < 0) return false;
		OutPdu a; a.b = wire::payload_pdu(ver, id, 1); a.id = id; a.flags = 1; a.payload = true;
		OutPdu w; w.b = wire::payload_pdu(ver, id, 0); w.id = id; w.flags = 0; w.payload = true;
		// put them first in the payload so that they precede later faults of the same family
		insert_at(1, w);
		insert_at(1, a);
		return true;
	}
	case M_BAD_FLAGS: {
		if (pay.empty()) return false;
		OutPdu &p = r[pay[(size_t)pos % pay.size()]];
		uint8_t f = (uint8_t)(2 + seed % 254);
		if (p.b[1] == wire::ROUTER_KEY) p.b[2] = f; else p.b[8] = f;
		p.flags = f;
		return true;
	}
	case M_SESSION_CR:
		if (!has_cr) return false;
	{	// Cache Response session differs from End of Data / established: in one bit of either byte, in a whole byte, or completely
		static const uint16_t X[6] = {0x4000, 0x0001, 0x0100, 0x00ff, 0xff00, 0xffff};
		uint16_t x = X[(seed >> 2) % 6];
		r[0].b[2] ^= (uint8_t)(x >> 8); r[0].b[3] ^= (uint8_t)x;
		return true;
	}
	case M_SESSION_EOD:
		if (r.back().b[1] != wire::EOD) return false;
	{
		static const uint16_t X[6] = {0x0001, 0x4000, 0x0100, 0xff00, 0x00ff, 0xffff};
		uint16_t x = X[(seed >> 2) % 6];
		r.back().b[2] ^= (uint8_t)(x >> 8); r.back().b[3] ^= (uint8_t)x;
		return true;
	}
	case M_WRONG_VERSION: {
		size_t i = (size_t)pos % n;
		uint8_t nv = (uint8_t)ver_byte;
		if (nv == (uint8_t)ver) nv = (uint8_t)(ver ? 2 : 1);
		r[i].b[0] = nv;
		return true;
	}
	case M_UNKNOWN_TYPE: {
		OutPdu p;
		static const uint8_t types[] = {5, 11, 12, 64, 255};
		uint32_t len = 8 + (seed % 3) * 4;
		p.b = wire::hdr((uint8_t)ver, types[seed % 5], 0, len);
		p.b.resize(len, 0xab);
		insert_at((size_t)pos % (n + 1), p);
		return true;
	}
	case M_LEN_SMALL: {
		size_t i = (size_t)pos % n;
		wire::set32(r[i].b, 4, seed % 8);
		return true;
	}
	case M_LEN_BIG: {
		size_t i = (size_t)pos % n;
		// boundary values just above the client's maximum come with as many bytes as they claim, so that a
		// client which accepts the header has something to read into its buffer
		static const uint32_t big[] = {3249, 3250, 3252, 3255, 3256, 3257, 3264, 4096, 65536, 0x7fffffff, 0x80000000u, 0xffffffffu};
		uint32_t v = big[seed % 12];
		if (v <= 4096) r[i].b.resize(v, (uint8_t)(0xA5 ^ seed));
		wire::set32(r[i].b, 4, v);
		return true;
	}
	case M_LEN_INCONSISTENT: { // declared length == bytes present, but wrong for the type
		size_t i = (size_t)pos % n;
		uint32_t l = (uint32_t)r[i].b.size();
		uint32_t nl = (seed & 1) ? l + 4 : (l >= 12 ? l - 4 : l + 4);
		r[i].b.resize(nl, 0);
		wire::set32(r[i].b, 4, nl);
		return true;
	}
	case M_UNEXPECTED_TYPE: {
		OutPdu p;
		switch (seed % 4) {
		case 0: p.b = wire::serial_query((uint8_t)ver, 1, 1); break;
		case 1: p.b = wire::reset_query((uint8_t)ver); break;
		case 2: p.b = wire::cache_response((uint8_t)ver, has_cr ? wire::get16(&r[0].b[2]) : 0); break;
		default: p.b = wire::cache_reset((uint8_t)ver); break;
		}
		size_t idx = has_cr ? payload_slot() : 0;
		if ((seed % 4 == 2 || seed % 4 == 3) && !has_cr) return false;
		insert_at(idx, p);
		return true;
	}
	case M_PREFIX_BADVER: { // a header-only PDU with an unsupported version first; the rest of the answer follows
		OutPdu p;
		static const uint8_t vs[] = {2, 3, 255, 7};
		p.b = wire::cache_reset(vs[seed % 4]);
		insert_at(0, p);
		return true;
	}
	case M_EOD_OTHER_FORMAT: {
		if (r.back().b[1] != wire::EOD) return false;
		wire::Bytes &e = r.back().b;
		uint16_t sess = wire::get16(&e[2]);
		uint32_t sn = wire::get32(&e[8]);
		if (ver == 0) { e = wire::eod(1, sess, sn, 3600, 600, 7200); e[0] = 0; }
		else { e = wire::eod(0, sess, sn, 0, 0, 0); e[0] = 1; }
		return true;
	}
	default:
		return false;
	}
}

inline void make_hostile(std::vector<OutPdu> &r, int which, int pos)
{
	std::vector<size_t> pay;
	for (size_t i = 0; i < r.size(); i++)
		if (r[i].payload && r[i].b[1] != wire::ROUTER_KEY && r[i].flags == 1) pay.push_back(i);
	if (pay.empty()) return;
	wire::Bytes &b = r[pay[(size_t)pos % pay.size()]].b;
	bool v6 = b[1] == wire::IPV6_PREFIX;
	switch (which % 5) {
	case 0: b[9] = (uint8_t)(v6 ? 129 + pos % 100 : 33 + pos % 200); b[10] = b[9]; break; // prefix length beyond the address width
	case 1: b[10] = (uint8_t)(b[9] ? b[9] - 1 : 0); if (!b[9]) b[11] = 7; break;		   // max length < length
	case 2: b[v6 ? 27 : 15] |= 1; break;							   // host bits set
	case 3: b[11] = 0x5a; break;								   // zero field
	default: b[10] = 255; break;								   // max length beyond the width
	}
}

} // namespace cs
