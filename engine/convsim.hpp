// Conversation simulator: drives the real rtrlib socket state machine (rtr_start -> rtr_fsm_start)
// over a mock transport, a simulated clock and a scripted cache, and judges what it observes
// against a protocol model derived from the property statements.  DESIGN.md §6.
#pragma once
#include "script.hpp"
#include <map>
#include <set>
#include <string>

namespace cs {

struct Options {
	bool whole_chunks = false; // deliver inbound bytes in the largest chunks the client asks for (chunking metamorphic partner)
	int dirty_override = -1;   // -1: use script.dirty; else 0 / 1
	bool battery = false;	   // C06 tier A: evaluate the reader battery inside transport calls during reloads
	bool trace = false;	   // keep a human-readable trace
	bool alloc_ledger = false; // install the counting allocator (C18)
	long fail_alloc = 0;	   // C18: fail the k-th allocation (1-based) once; 0 = never
	bool no_midstop = false;   // chunking metamorphic pair: a stop placed by counting transport calls would fall at different protocol points in the two runs
	std::string focus;	   // property under test (some failures charged to other properties are tolerated so that the conversation can go on)
};

struct Report {
	bool ok = true;
	std::string prop, sig, what;
	std::map<std::string, long> cls; // measured classes / counters
	bool weak = false;		 // conversation left the domain of the set-semantics oracles (hostile / raw payload)
	bool converged = false;
	std::string digest; // outcome digest (chunking invariance / dirty-pattern determinism)
	std::string sent_hex; // all bytes handed to the transport, per connection
	std::string trace;
	std::string first_foreign; // first failure charged to a property other than Options.focus (not reported by this run)
	long allocs = 0;      // number of allocations made through the counting allocator
	long leaked = 0;      // blocks still in the ledger after everything was freed
	long foreign_free = 0; // frees of blocks the ledger does not know (would be a bad free with a custom allocator)
	bool alloc_failed_hit = false;
};

Report run(const Script &sc, const Options &opt);

} // namespace cs
