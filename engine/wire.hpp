// RTR wire format helpers + the record universe of the conversation simulator.
// Independent of rtrlib's packets.c: written from RFC 6810 / RFC 8210 PDU layouts.
#pragma once
#include <array>
#include <cstdint>
#include <cstring>
#include <string>
#include <vector>

namespace wire {
typedef std::vector<uint8_t> Bytes;

enum PduType { SERIAL_NOTIFY = 0, SERIAL_QUERY = 1, RESET_QUERY = 2, CACHE_RESPONSE = 3, IPV4_PREFIX = 4, IPV6_PREFIX = 6, EOD = 7, CACHE_RESET = 8, ROUTER_KEY = 9, ERROR_REPORT = 10 };

inline void put16(Bytes &b, uint16_t v) { b.push_back(v >> 8); b.push_back(v & 0xff); }
inline void put32(Bytes &b, uint32_t v) { b.push_back(v >> 24); b.push_back(v >> 16); b.push_back(v >> 8); b.push_back(v); }
inline uint16_t get16(const uint8_t *p) { return (uint16_t)((p[0] << 8) | p[1]); }
inline uint32_t get32(const uint8_t *p) { return ((uint32_t)p[0] << 24) | (p[1] << 16) | (p[2] << 8) | p[3]; }
inline void set32(Bytes &b, size_t off, uint32_t v) { b[off] = v >> 24; b[off + 1] = v >> 16; b[off + 2] = v >> 8; b[off + 3] = v; }

inline Bytes hdr(uint8_t ver, uint8_t type, uint16_t f16, uint32_t len)
{
	Bytes b;
	b.push_back(ver);
	b.push_back(type);
	put16(b, f16);
	put32(b, len);
	return b;
}
inline Bytes serial_notify(uint8_t ver, uint16_t session, uint32_t serial) { Bytes b = hdr(ver, SERIAL_NOTIFY, session, 12); put32(b, serial); return b; }
inline Bytes serial_query(uint8_t ver, uint16_t session, uint32_t serial) { Bytes b = hdr(ver, SERIAL_QUERY, session, 12); put32(b, serial); return b; }
inline Bytes reset_query(uint8_t ver) { return hdr(ver, RESET_QUERY, 0, 8); }
inline Bytes cache_response(uint8_t ver, uint16_t session) { return hdr(ver, CACHE_RESPONSE, session, 8); }
inline Bytes cache_reset(uint8_t ver) { return hdr(ver, CACHE_RESET, 0, 8); }
inline Bytes eod(uint8_t ver, uint16_t session, uint32_t serial, uint32_t refresh, uint32_t retry, uint32_t expire)
{
	Bytes b = hdr(ver, EOD, session, ver == 0 ? 12 : 24);
	put32(b, serial);
	if (ver != 0) { put32(b, refresh); put32(b, retry); put32(b, expire); }
	return b;
}
inline Bytes ipv4(uint8_t ver, uint8_t flags, uint8_t len, uint8_t maxlen, uint8_t zero, const uint8_t a[4], uint32_t asn)
{
	Bytes b = hdr(ver, IPV4_PREFIX, 0, 20);
	b.push_back(flags); b.push_back(len); b.push_back(maxlen); b.push_back(zero);
	for (int i = 0; i < 4; i++) b.push_back(a[i]);
	put32(b, asn);
	return b;
}
inline Bytes ipv6(uint8_t ver, uint8_t flags, uint8_t len, uint8_t maxlen, uint8_t zero, const uint8_t a[16], uint32_t asn)
{
	Bytes b = hdr(ver, IPV6_PREFIX, 0, 32);
	b.push_back(flags); b.push_back(len); b.push_back(maxlen); b.push_back(zero);
	for (int i = 0; i < 16; i++) b.push_back(a[i]);
	put32(b, asn);
	return b;
}
inline Bytes router_key(uint8_t ver, uint8_t flags, uint8_t zero, const uint8_t ski[20], uint32_t asn, const uint8_t spki[91])
{
	Bytes b;
	b.push_back(ver); b.push_back(ROUTER_KEY); b.push_back(flags); b.push_back(zero);
	put32(b, 123);
	for (int i = 0; i < 20; i++) b.push_back(ski[i]);
	put32(b, asn);
	for (int i = 0; i < 91; i++) b.push_back(spki[i]);
	return b;
}
inline Bytes error_report(uint8_t ver, uint16_t code, const Bytes &encap, const std::string &text)
{
	Bytes b = hdr(ver, ERROR_REPORT, code, (uint32_t)(16 + encap.size() + text.size()));
	put32(b, (uint32_t)encap.size());
	b.insert(b.end(), encap.begin(), encap.end());
	put32(b, (uint32_t)text.size());
	b.insert(b.end(), text.begin(), text.end());
	return b;
}

// expected exact size of a PDU of `type` at protocol version `ver`; 0 = unknown type, -1 = variable (error report)
inline int fixed_size(uint8_t type, uint8_t ver)
{
	switch (type) {
	case SERIAL_NOTIFY: case SERIAL_QUERY: return 12;
	case RESET_QUERY: case CACHE_RESPONSE: case CACHE_RESET: return 8;
	case IPV4_PREFIX: return 20;
	case IPV6_PREFIX: return 32;
	case EOD: return ver == 0 ? 12 : 24;
	case ROUTER_KEY: return 123;
	case ERROR_REPORT: return -1;
	default: return 0;
	}
}

// ---------------------------------------------------------------- record universe
// ids 0..23 IPv4, 24..39 IPv6, 40..51 router keys; bulk records (responses with more than 100 PDUs of a kind):
// 1000..1999 IPv4 /32, 2000..2999 IPv6 /128, 3000..3999 router keys (SKI of key 40, AS 100000 + i).
struct URec {
	int kind = 0; // 0 v4, 1 v6, 2 key
	uint8_t addr[16] = {0};
	uint8_t len = 0, maxlen = 0;
	uint32_t asn = 0;
	uint8_t ski[20] = {0};
	uint8_t spki[91] = {0};
};
static const int N_UREC = 52;
static const int BULK4 = 1000, BULK6 = 2000, BULKK = 3000;
inline bool is_key(int id) { return (id >= 40 && id < N_UREC) || (id >= BULKK && id < BULKK + 1000); }

inline void mask_bits(uint8_t *a, int nbytes, int len)
{
	for (int i = len; i < nbytes * 8; i++) a[i / 8] &= (uint8_t)~(1u << (7 - i % 8));
}

inline URec urec_make(int id)
{
	URec r;
	static const uint32_t AS2[2] = {64500, 0};
	if (id >= BULKK) {
		int i = id - BULKK;
		r.kind = 2;
		for (int k = 0; k < 20; k++) r.ski[k] = (uint8_t)(0x21 + k); // the SKI of key 40: found by the same lookups
		r.asn = 100000u + (uint32_t)i;
		for (int k = 0; k < 91; k++) r.spki[k] = (uint8_t)(k * 5 + 1);
		return r;
	}
	if (id >= BULK6) {
		int i = id - BULK6;
		static const uint8_t base[16] = {0x20, 0x01, 0x0d, 0xb8, 0, 9, 0, 0, 0, 0, 0, 0, 0, 0, 0, 0};
		r.kind = 1;
		memcpy(r.addr, base, 16);
		r.addr[14] = (uint8_t)(i >> 8); r.addr[15] = (uint8_t)i;
		r.len = 128; r.maxlen = 128; r.asn = 7;
		return r;
	}
	if (id >= BULK4) {
		int i = id - BULK4;
		r.kind = 0;
		r.addr[0] = 10; r.addr[1] = 9; r.addr[2] = (uint8_t)(i >> 8); r.addr[3] = (uint8_t)i;
		r.len = 32; r.maxlen = 32; r.asn = 7;
		return r;
	}
	if (id < 24) {
		static const uint8_t L4[6] = {0, 8, 16, 17, 24, 32};
		static const uint8_t base[4] = {10, 129, 130, 131};
		r.kind = 0;
		r.len = L4[id % 6];
		memcpy(r.addr, base, 4);
		mask_bits(r.addr, 4, r.len);
		r.asn = AS2[(id / 6) % 2];
		r.maxlen = (id / 12) % 2 ? 32 : r.len;
		if ((id / 12) % 2 && r.len == 32) r.asn += 3; // keep the universe free of duplicates
	} else if (id < 40) {
		int j = id - 24;
		static const uint8_t L6[4] = {0, 32, 49, 128};
		static const uint8_t base[16] = {0x20, 0x01, 0x0d, 0xb8, 0x80, 0x01, 0xff, 0x02, 0, 0, 0, 0, 0, 0, 0x80, 0x01};
		r.kind = 1;
		r.len = L6[j % 4];
		memcpy(r.addr, base, 16);
		mask_bits(r.addr, 16, r.len);
		r.asn = AS2[(j / 4) % 2];
		r.maxlen = (j / 8) % 2 ? 128 : r.len;
		if ((j / 8) % 2 && r.len == 128) r.asn += 3;
	} else {
		int j = id - 40;
		r.kind = 2;
		for (int i = 0; i < 20; i++) r.ski[i] = (uint8_t)(0x21 * (j % 3 + 1) + i);
		r.asn = (j / 3) % 2 ? 64500 : 4200000000u;
		for (int i = 0; i < 91; i++) r.spki[i] = (uint8_t)(i * 5 + 1);
		if ((j / 6) % 2) r.spki[90] ^= 0x55;
	}
	return r;
}

inline const URec &urec_cached(int id)
{
	static URec tab[N_UREC];
	static bool init = false;
	if (!init) { for (int i = 0; i < N_UREC; i++) tab[i] = urec_make(i); init = true; }
	return tab[id];
}
inline URec urec(int id) { return (id >= 0 && id < N_UREC) ? urec_cached(id) : urec_make(id); }

inline Bytes payload_pdu(uint8_t ver, int id, uint8_t flags)
{
	URec r = urec(id);
	if (r.kind == 0) return ipv4(ver, flags, r.len, r.maxlen, 0, r.addr, r.asn);
	if (r.kind == 1) return ipv6(ver, flags, r.len, r.maxlen, 0, r.addr, r.asn);
	return router_key(ver, flags, 0, r.ski, r.asn, r.spki);
}

inline std::string hex(const uint8_t *p, size_t n)
{
	static const char *d = "0123456789abcdef";
	std::string s;
	for (size_t i = 0; i < n; i++) { s += d[p[i] >> 4]; s += d[p[i] & 15]; }
	return s;
}
inline std::string hex(const Bytes &b) { return hex(b.data(), b.size()); }
inline Bytes unhex(const std::string &s)
{
	Bytes b;
	for (size_t i = 0; i + 1 < s.size(); i += 2) b.push_back((uint8_t)strtoul(s.substr(i, 2).c_str(), nullptr, 16));
	return b;
}
} // namespace wire
