// The judge: a strict RTR decoder + the model of what a correct client must conclude from a
// response byte stream.  Written from RFC 8210 and the property statements, not from packets.c.
#pragma once
#include "wire.hpp"
#include <set>
#include <map>
#include <string>

namespace cs {

enum VerdictKind { V_OK, V_FAULT, V_CACHE_RESET, V_ERROR_REPORT, V_TRUNCATED, V_EMPTY };
enum FaultClass { F_NONE, F_FRAME_SHORT, F_FRAME_LONG, F_SIZE, F_UNKNOWN_TYPE, F_VERSION, F_UNEXPECTED, F_SESSION_CR, F_SESSION_EOD, F_FLAGS, F_DUP, F_UNKNOWN_WD };

inline const char *fault_name(int f)
{
	static const char *n[] = {"none", "length<8", "length>max", "size-inconsistent-with-type", "unknown-type", "wrong-version", "unexpected-pdu",
				  "session-mismatch-cache-response", "session-mismatch-eod", "invalid-flags", "duplicate-announcement", "withdrawal-of-unknown"};
	return n[f];
}
// property a success on this fault is charged to
inline const char *fault_prop(int f)
{
	switch (f) {
	case F_FRAME_SHORT: case F_FRAME_LONG: case F_SIZE: case F_UNKNOWN_TYPE: return "C04";
	case F_VERSION: return "C13";
	case F_SESSION_CR: case F_SESSION_EOD: return "C05";
	default: return "C03";
	}
}
// error code(s) a report for this fault must carry (C14); second value -1 if only one is acceptable
inline void fault_codes(int f, int &a, int &b)
{
	b = -1;
	switch (f) {
	case F_VERSION: a = 8; break;
	case F_DUP: a = 7; break;
	case F_UNKNOWN_WD: a = 6; break;
	case F_UNKNOWN_TYPE: a = 0; b = 5; break;
	default: a = 0;
	}
}

struct PduPos { size_t off, len; uint8_t type; };

struct Verdict {
	int kind = V_EMPTY;
	int fault = F_NONE;
	size_t fault_off = 0, fault_len = 0; // offending PDU inside the stream (as delivered)
	size_t end_off = 0;		     // offset just after the PDU that ends the client's reading of this response
	std::set<int> result;		     // V_OK: record ids after applying
	bool unknown_records = false;	     // V_OK but payload outside the universe
	bool hostile_fields = false;	     // payload with length > width, max < len, host bits set, zero != 0
	uint16_t session = 0;
	uint32_t serial = 0;
	bool eod_has_intervals = false;
	uint32_t iv[3] = {0, 0, 0}; // refresh, retry, expire as sent
	bool eod_seen = false;	    // a well-formed End of Data was reached (intervals may have been applied)
	int err_code = -1, err_ver = -1; // V_ERROR_REPORT
	int version_after = 1;		 // negotiated version after this response (live downgrade on first PDU)
	bool downgraded = false;
	bool first_pdu_consumed = false; // at least one complete header was read on this connection
	int payload_pdus = 0, applied_before_fault = 0;
	std::vector<PduPos> pdus;
};

struct JudgeCtx {
	int version = 1;
	bool first_pdu_of_conn = true;
	bool reset_query = true;
	uint16_t session = 0; // established session (serial query)
	std::set<int> recs;   // records held (serial query: delta base)
	unsigned max_pdu_len = 3248;
};

// map a payload PDU back to a universe id (-1 if outside the universe); flags returned separately
inline std::string pdu_key(const uint8_t *p, size_t n)
{
	uint8_t type = p[1];
	std::string k(1, (char)type);
	if (type == wire::IPV4_PREFIX && n == 20) k.append((const char *)p + 9, 2).append((const char *)p + 12, 8);
	else if (type == wire::IPV6_PREFIX && n == 32) k.append((const char *)p + 9, 2).append((const char *)p + 12, 20);
	else if (type == wire::ROUTER_KEY && n == 123) k.append((const char *)p + 8, 115);
	else k.clear();
	return k;
}
inline int pdu_to_id(const uint8_t *p, size_t n, const std::set<int> &bulk_hint)
{
	(void)bulk_hint;
	static std::map<std::string, int> tab;
	if (tab.empty())
		for (int id = 0; id < wire::N_UREC; id++) {
			wire::Bytes b = wire::payload_pdu(1, id, 1);
			tab[pdu_key(b.data(), b.size())] = id;
		}
	uint8_t type = p[1];
	std::string k = pdu_key(p, n);
	if (k.empty()) return -1;
	auto it = tab.find(k);
	if (it != tab.end()) return it->second;
	if (type == wire::IPV4_PREFIX && n == 20 && p[9] == 32 && p[10] == 32 && p[12] == 10 && p[13] == 9 && wire::get32(p + 16) == 7 && ((p[14] << 8) | p[15]) < 1000)
		return wire::BULK4 + ((p[14] << 8) | p[15]);
	if (type == wire::IPV6_PREFIX && n == 32 && p[9] == 128 && p[10] == 128 && wire::get32(p + 28) == 7 && ((p[26] << 8) | p[27]) < 1000) {
		wire::URec u = wire::urec_make(wire::BULK6 + ((p[26] << 8) | p[27]));
		if (!memcmp(u.addr, p + 12, 16)) return wire::BULK6 + ((p[26] << 8) | p[27]);
	}
	if (type == wire::ROUTER_KEY && n == 123) {
		uint32_t asn = wire::get32(p + 28);
		if (asn >= 100000u && asn < 101000u) {
			wire::URec u = wire::urec_make(wire::BULKK + (int)(asn - 100000u));
			if (!memcmp(u.ski, p + 8, 20) && !memcmp(u.spki, p + 32, 91)) return wire::BULKK + (int)(asn - 100000u);
		}
	}
	return -1;
}

inline bool hostile_payload(const uint8_t *p, size_t n)
{
	uint8_t type = p[1];
	if (type == wire::IPV4_PREFIX && n == 20) {
		uint8_t len = p[9], mx = p[10];
		if (len > 32 || mx > 32 || mx < len) return true; // (the reserved octet p[11] is to be ignored on receipt: not hostile)
		uint8_t a[4];
		memcpy(a, p + 12, 4);
		wire::mask_bits(a, 4, len);
		return memcmp(a, p + 12, 4) != 0;
	}
	if (type == wire::IPV6_PREFIX && n == 32) {
		uint8_t len = p[9], mx = p[10];
		if (len > 128 || mx > 128 || mx < len) return true;
		uint8_t a[16];
		memcpy(a, p + 12, 16);
		wire::mask_bits(a, 16, len);
		return memcmp(a, p + 12, 16) != 0;
	}
	if (type == wire::ROUTER_KEY && n == 123) return false; // (reserved octet p[3]: ignored on receipt)
	return false;
}

inline Verdict judge(const wire::Bytes &s, const JudgeCtx &cx)
{
	Verdict v;
	v.version_after = cx.version;
	size_t o = 0;
	bool first = cx.first_pdu_of_conn;
	int version = cx.version;
	int state = 0; // 0 before Cache Response, 1 in payload
	uint16_t session = cx.session;
	std::vector<PduPos> p4, p6, pk;
	auto FAULT = [&](int f, size_t off, size_t len) {
		v.kind = V_FAULT;
		v.fault = f;
		v.fault_off = off;
		v.fault_len = len;
		v.end_off = off + len;
		v.version_after = version;
		return v;
	};
	while (true) {
		if (o == s.size()) { v.kind = (o == 0) ? V_EMPTY : V_TRUNCATED; v.end_off = o; v.version_after = version; return v; }
		if (s.size() - o < 8) { v.kind = V_TRUNCATED; v.end_off = s.size(); v.version_after = version; return v; }
		const uint8_t *h = &s[o];
		uint8_t ver = h[0], type = h[1];
		uint32_t len = wire::get32(h + 4);
		v.first_pdu_consumed = true;
		if (len < 8) return FAULT(F_FRAME_SHORT, o, 8);
		if (len > cx.max_pdu_len) return FAULT(F_FRAME_LONG, o, 8);
		if (first) {
			if (version == 1 && ver == 0 && type != wire::ERROR_REPORT) { version = 0; v.downgraded = true; }
			first = false;
		}
		if (ver != version && type != wire::ERROR_REPORT) return FAULT(F_VERSION, o, 8);
		if (s.size() - o < len) { v.kind = V_TRUNCATED; v.end_off = s.size(); v.version_after = version; return v; }
		int fs = wire::fixed_size(type, ver);
		if (fs == 0) return FAULT(F_UNKNOWN_TYPE, o, len);
		if (fs > 0 && (uint32_t)fs != len) return FAULT(F_SIZE, o, len);
		if (type == wire::ERROR_REPORT) {
			bool good = len >= 16;
			uint32_t el = 0, tl = 0;
			if (good) { el = wire::get32(h + 8); good = (uint64_t)16 + el <= len; }
			if (good) { tl = wire::get32(h + 12 + el); good = (uint64_t)16 + el + tl == len; }
			if (!good) return FAULT(F_SIZE, o, len);
		}
		v.pdus.push_back({o, len, type});
		size_t nxt = o + len;
		if (type == wire::SERIAL_NOTIFY) { o = nxt; continue; }
		if (type == wire::ERROR_REPORT) {
			v.kind = V_ERROR_REPORT;
			v.err_code = wire::get16(h + 2);
			v.err_ver = ver;
			v.end_off = nxt;
			v.version_after = version;
			return v;
		}
		if (state == 0) {
			if (type == wire::CACHE_RESET) { v.kind = V_CACHE_RESET; v.end_off = nxt; v.version_after = version; return v; }
			if (type != wire::CACHE_RESPONSE) return FAULT(F_UNEXPECTED, o, len);
			uint16_t sid = wire::get16(h + 2);
			if (!cx.reset_query && sid != cx.session) return FAULT(F_SESSION_CR, o, len);
			session = sid;
			state = 1;
			o = nxt;
			continue;
		}
		// payload
		if (type == wire::IPV4_PREFIX) { p4.push_back({o, len, type}); v.payload_pdus++; o = nxt; continue; }
		if (type == wire::IPV6_PREFIX) { p6.push_back({o, len, type}); v.payload_pdus++; o = nxt; continue; }
		if (type == wire::ROUTER_KEY) { pk.push_back({o, len, type}); v.payload_pdus++; o = nxt; continue; }
		if (type != wire::EOD) return FAULT(F_UNEXPECTED, o, len);
		// End of Data
		if (wire::get16(h + 2) != session) return FAULT(F_SESSION_EOD, o, len);
		v.eod_seen = true;
		v.session = session;
		v.serial = wire::get32(h + 8);
		if (ver != 0) {
			v.eod_has_intervals = true;
			v.iv[0] = wire::get32(h + 12);
			v.iv[1] = wire::get32(h + 16);
			v.iv[2] = wire::get32(h + 20);
		}
		v.end_off = nxt;
		v.version_after = version;
		std::set<int> cur = cx.reset_query ? std::set<int>() : cx.recs;
		int applied = 0;
		for (auto *lst : {&p4, &p6, &pk})
			for (auto &pp : *lst) {
				const uint8_t *q = &s[pp.off];
				uint8_t flags = (pp.type == wire::ROUTER_KEY) ? q[2] : q[8];
				if (hostile_payload(q, pp.len)) v.hostile_fields = true;
				int id = pdu_to_id(q, pp.len, cur);
				if (flags > 1) { Verdict f = FAULT(F_FLAGS, pp.off, pp.len); f.end_off = nxt; f.applied_before_fault = applied; f.eod_seen = true; f.eod_has_intervals = v.eod_has_intervals; memcpy(f.iv, v.iv, sizeof v.iv); f.hostile_fields = v.hostile_fields; f.unknown_records = v.unknown_records; return f; }
				if (id < 0) { v.unknown_records = true; applied++; continue; }
				if (flags == 1) {
					if (!cur.insert(id).second) { Verdict f = FAULT(F_DUP, pp.off, pp.len); f.end_off = nxt; f.applied_before_fault = applied; f.eod_seen = true; f.eod_has_intervals = v.eod_has_intervals; memcpy(f.iv, v.iv, sizeof v.iv); f.hostile_fields = v.hostile_fields; f.unknown_records = v.unknown_records; return f; }
				} else {
					if (!cur.erase(id)) { Verdict f = FAULT(F_UNKNOWN_WD, pp.off, pp.len); f.end_off = nxt; f.applied_before_fault = applied; f.eod_seen = true; f.eod_has_intervals = v.eod_has_intervals; memcpy(f.iv, v.iv, sizeof v.iv); f.hostile_fields = v.hostile_fields; f.unknown_records = v.unknown_records; return f; }
				}
				applied++;
			}
		v.kind = V_OK;
		v.result = cur;
		return v;
	}
}

} // namespace cs
