// Per-property rule for "this conversation exercised the property" (evidence: distinct_nontrivial); shared by the
// rapidcheck driver (props/conv.cpp) and the libFuzzer target (props/conv_fuzz.cpp).
#pragma once
#include "convsim.hpp"
#include <string>

namespace cs {

inline bool has(const Report &r, const char *k) { auto it = r.cls.find(k); return it != r.cls.end() && it->second > 0; }
inline long num(const Report &r, const char *k) { auto it = r.cls.find(k); return it == r.cls.end() ? 0 : it->second; }

inline bool nontrivial(const std::string &prop, const Report &r)
{
	if (prop == "C03") return has(r, "failed-after-partial-application(undo-path)") || has(r, "reload-completed(data-present-before)") || (has(r, "response:delta-with-announce-and-withdraw") && has(r, "exchange-succeeded"));
	if (prop == "C04") { for (auto &kv : r.cls) if (kv.first.compare(0, 6, "fault:") == 0 && (kv.first.find("length") != std::string::npos || kv.first.find("size") != std::string::npos || kv.first.find("unknown-type") != std::string::npos)) return true; return has(r, "hostile-or-raw-payload(set-oracles-off-afterwards)") || has(r, "short-reads"); }
	if (prop == "C05") return (num(r, "query:reset") + num(r, "query:serial") >= 3 && has(r, "serial-query-after-failed-exchange")) || has(r, "fault:session-mismatch-cache-response") || has(r, "fault:session-mismatch-eod") || has(r, "stop-start-cycles");
	if (prop == "C07") return (has(r, "open-after-expiry") && has(r, "exchange-succeeded")) || has(r, "stop-start-cycles");
	if (prop == "C08") return num(r, "exchange-failed") >= 2 && r.converged && has(r, "exchange-succeeded");
	if (prop == "C13") { for (auto &kv : r.cls) if (kv.first.compare(0, 10, "downgrade:") == 0) return true; return has(r, "fault:wrong-version"); }
	if (prop == "C14") return has(r, "error-reports-sent");
	if (prop == "C17") return has(r, "eod-with-out-of-range-or-boundary-interval") || has(r, "serial-notify-in-established") || has(r, "refresh-interval-expired-in-established");
	if (prop == "C06") return has(r, "reload-swapped-prefix-table-in-one-step") || has(r, "reload-swapped-router-key-table-in-one-step");
	if (prop == "C18") return num(r, "allocation-failures-that-hit-the-library") > 0;
	if (prop == "C09" || prop == "C10") return has(r, "failed-after-partial-application(undo-path)") || has(r, "reload-completed(data-present-before)") || has(r, "open-after-expiry");
	return false;
}

} // namespace cs
