// Driver "ipconv": C19 — address text conversion round-trips, agrees with inet_pton, is a function
// of the text only, and never writes beyond the given buffer length.  DESIGN.md §7 C19.
#include "common.hpp"
#include "../shim/rtr_shim.h"
#include <rapidcheck.h>
#include <arpa/inet.h>

template <typename T> static rc::Gen<T> rng(T lo, T hi) { return rc::gen::resize(rc::kNominalSize, rc::gen::inRange<T>(lo, (T)(hi + 1))); }

struct Case {
	int kind = 0; // 0: v4 address round trip, 1: v6 address round trip, 2: string (differential + determinism)
	uint32_t w[8] = {0};
	std::string s;
};

static std::string case_text(const Case &c)
{
	std::ostringstream o;
	if (c.kind == 2) {
		o << "str ";
		for (unsigned char ch : c.s) {
			char b[4];
			snprintf(b, sizeof b, "%02x", ch);
			o << b;
		}
		o << "\n# text: " << vf::jesc(c.s) << "\n";
	} else {
		o << (c.kind == 0 ? "v4" : "v6");
		for (int i = 0; i < (c.kind == 0 ? 1 : 8); i++) o << " " << c.w[i];
		o << "\n";
	}
	return o.str();
}
static Case parse_case(const std::string &t)
{
	Case c;
	std::istringstream in(t);
	std::string w;
	in >> w;
	if (w == "str") {
		c.kind = 2;
		std::string hex;
		in >> hex;
		for (size_t i = 0; i + 1 < hex.size(); i += 2) c.s.push_back((char)strtoul(hex.substr(i, 2).c_str(), nullptr, 16));
	} else {
		c.kind = w == "v4" ? 0 : 1;
		for (int i = 0; i < (c.kind == 0 ? 1 : 8); i++) in >> c.w[i];
	}
	return c;
}

static rc::Gen<uint32_t> genWord()
{
	using namespace rc;
	return gen::weightedOneOf<uint32_t>({{4, gen::just<uint32_t>(0)}, {1, gen::just<uint32_t>(1)}, {1, gen::just<uint32_t>(0xffff)}, {3, rng<uint32_t>(0, 0xffff)}});
}
static rc::Gen<Case> genV6()
{
	using namespace rc;
	return gen::apply(
		[](std::vector<uint32_t> w, int shape, uint32_t v4) {
			Case c;
			c.kind = 1;
			for (int i = 0; i < 8; i++) c.w[i] = w[i];
			if (shape == 1) { for (int i = 0; i < 6; i++) c.w[i] = 0; c.w[6] = v4 >> 16; c.w[7] = v4 & 0xffff; }		  // ::a.b.c.d
			if (shape == 2) { for (int i = 0; i < 5; i++) c.w[i] = 0; c.w[5] = 0xffff; c.w[6] = v4 >> 16; c.w[7] = v4 & 0xffff; } // ::ffff:a.b.c.d
			if (shape == 3) { for (int i = 0; i < 5; i++) c.w[i] = 0; }									  // 5-word zero prefix, word 5 arbitrary
			if (shape == 4) { for (int i = 0; i < 8; i++) c.w[i] = 0; c.w[7] = v4 & 1; }						  // :: and ::1
			return c;
		},
		gen::container<std::vector<uint32_t>>(8, genWord()), gen::weightedElement<int>({{10, 0}, {2, 1}, {2, 2}, {2, 3}, {1, 4}}), gen::arbitrary<uint32_t>());
}
static rc::Gen<Case> genV4()
{
	using namespace rc;
	auto oct = gen::weightedOneOf<uint32_t>({{3, gen::element<uint32_t>(0, 1, 9, 10, 99, 100, 127, 128, 199, 200, 254, 255)}, {2, rng<uint32_t>(0, 255)}});
	return gen::apply([](uint32_t a, uint32_t b, uint32_t c_, uint32_t d) {
		Case c;
		c.kind = 0;
		c.w[0] = (a << 24) | (b << 16) | (c_ << 8) | d;
		return c;
	}, oct, oct, oct, oct);
}

static std::string lib_to_str(int fam, const uint32_t *w)
{
	struct lrtr_ip_addr ip;
	memset(&ip, 0, sizeof ip);
	char buf[64];
	if (fam == 0) { ip.ver = LRTR_IPV4; ip.u.addr4.addr = w[0]; }
	else { ip.ver = LRTR_IPV6; for (int i = 0; i < 4; i++) ip.u.addr6.addr[i] = (w[2 * i] << 16) | w[2 * i + 1]; }
	if (lrtr_ip_addr_to_str(&ip, buf, sizeof buf) != 0) return "";
	return buf;
}
static std::string ntop(int fam, const uint32_t *w)
{
	char buf[64];
	if (fam == 0) { uint32_t n = htonl(w[0]); inet_ntop(AF_INET, &n, buf, sizeof buf); }
	else {
		uint8_t b[16];
		for (int i = 0; i < 8; i++) { b[2 * i] = w[i] >> 8; b[2 * i + 1] = w[i]; }
		inet_ntop(AF_INET6, b, buf, sizeof buf);
	}
	return buf;
}

static rc::Gen<Case> genStr()
{
	using namespace rc;
	auto base = gen::oneOf(genV6(), genV4());
	return gen::apply(
		[](Case a, int src, std::vector<std::tuple<int, int, int>> muts) {
			Case c;
			c.kind = 2;
			int fam = a.kind;
			c.s = (src == 0) ? ntop(fam, a.w) : lib_to_str(fam, a.w);
			if (src == 2 && fam == 1) { // uncompressed 8-group form
				char b[64];
				snprintf(b, sizeof b, "%x:%x:%x:%x:%x:%x:%x:%x", a.w[0], a.w[1], a.w[2], a.w[3], a.w[4], a.w[5], a.w[6], a.w[7]);
				c.s = b;
			}
			if (src == 3 && fam == 1) { // x:x:x:x:x:x:d.d.d.d
				char b[64];
				snprintf(b, sizeof b, "%x:%x:%x:%x:%x:%x:%u.%u.%u.%u", a.w[0], a.w[1], a.w[2], a.w[3], a.w[4], a.w[5], a.w[6] >> 8, a.w[6] & 0xff, a.w[7] >> 8, a.w[7] & 0xff);
				c.s = b;
			}
			for (auto &m : muts) {
				int kind = std::get<0>(m), pos = std::get<1>(m), arg = std::get<2>(m);
				std::string &s = c.s;
				if (s.empty()) break;
				size_t p = (size_t)pos % s.size();
				static const char alphabet[] = "0123456789abcdefABCDEF:.: g/-";
				switch (kind) {
				case 0: s = s.substr(0, p); break;				       // truncate
				case 1: s.erase(p, 1); break;					       // delete a char
				case 2: s.insert(p, 1, s[p]); break;				       // duplicate a char
				case 3: if (s[p] == ':') s[p] = '.'; else if (s[p] == '.') s[p] = ':'; else s[p] = alphabet[(unsigned)arg % (sizeof alphabet - 1)]; break;
				case 4: for (auto &ch : s) ch = (char)toupper(ch); break;
				case 5: { size_t q = s.find_last_of(":.", p); s.insert(q == std::string::npos ? 0 : q + 1, "0"); break; } // leading zero
				case 6: s += (arg & 1) ? ":1" : ":"; break;			       // extra group / trailing colon
				case 7: s.insert(p, "::"); break;				       // second '::'
				case 8: { size_t q = s.find(':'); if (q != std::string::npos) s.erase(q, 1); break; } // drop a colon
				case 9: s = s.substr(p); break;					       // drop the head
				default: break;
				}
			}
			return c;
		},
		base, rng<int>(0, 3),
		gen::container<std::vector<std::tuple<int, int, int>>>(gen::tuple(rng<int>(0, 9), rng<int>(0, 60), rng<int>(0, 255))));
}

// ---- determinism helper: dirty the stack region the parser is about to use, then parse.
__attribute__((noinline)) static void dirty_stack(unsigned char pat)
{
	volatile unsigned char buf[3072];
	for (size_t i = 0; i < sizeof buf; i++) buf[i] = pat;
	asm volatile("" ::: "memory");
}
__attribute__((noinline)) static int parse_dirty(const char *s, struct lrtr_ip_addr *out, unsigned char pat)
{
	memset(out, pat, sizeof *out);
	dirty_stack(pat);
	return lrtr_ip_str_to_addr(s, out);
}
static bool addr_eq(const struct lrtr_ip_addr &a, const struct lrtr_ip_addr &b)
{
	if (a.ver != b.ver) return false;
	if (a.ver == LRTR_IPV4) return a.u.addr4.addr == b.u.addr4.addr;
	return memcmp(a.u.addr6.addr, b.u.addr6.addr, 16) == 0;
}
static std::string addr_hex(const struct lrtr_ip_addr &a)
{
	char b[64];
	if (a.ver == LRTR_IPV4) snprintf(b, sizeof b, "v4:%08x", a.u.addr4.addr);
	else snprintf(b, sizeof b, "v6:%08x%08x%08x%08x", a.u.addr6.addr[0], a.u.addr6.addr[1], a.u.addr6.addr[2], a.u.addr6.addr[3]);
	return b;
}

struct Info { bool nontrivial = false; std::string cls; };

static vf::Result run_case(const Case &c, Info *info)
{
	using vf::Result;
	if (c.kind == 0 || c.kind == 1) {
		struct lrtr_ip_addr ip, back;
		memset(&ip, 0, sizeof ip);
		if (c.kind == 0) { ip.ver = LRTR_IPV4; ip.u.addr4.addr = c.w[0]; }
		else { ip.ver = LRTR_IPV6; for (int i = 0; i < 4; i++) ip.u.addr6.addr[i] = ((c.w[2 * i] & 0xffff) << 16) | (c.w[2 * i + 1] & 0xffff); }
		// (4) buffer discipline: every len 0..64, canaries on both sides
		for (unsigned len = 0; len <= 64; len++) {
			unsigned char buf[16 + 64 + 16];
			memset(buf, 0xA5, sizeof buf);
			int rc = lrtr_ip_addr_to_str(&ip, (char *)buf + 16, len);
			for (unsigned i = 0; i < sizeof buf; i++) {
				bool inside = i >= 16 && i < 16 + len;
				if (!inside && buf[i] != 0xA5) return Result::fail("C19:to_str-overrun", "lrtr_ip_addr_to_str(" + addr_hex(ip) + ", len=" + std::to_string(len) + ") wrote outside the buffer at offset " + std::to_string((int)i - 16));
			}
			if (c.kind == 1 && len < INET6_ADDRSTRLEN && rc != -1) return Result::fail("C19:to_str-short-v6", "IPv6 to_str with len " + std::to_string(len) + " < 46 did not return -1");
			if (rc == 0 && len > 0 && !memchr(buf + 16, 0, len)) return Result::fail("C19:to_str-unterminated", "to_str returned 0 but left no terminator within len=" + std::to_string(len));
		}
		char txt[64];
		if (lrtr_ip_addr_to_str(&ip, txt, sizeof txt) != 0) return Result::fail("C19:to_str-rc", "to_str failed for " + addr_hex(ip));
		if (lrtr_ip_str_to_addr(txt, &back) != 0 || !addr_eq(ip, back))
			return Result::fail("C19:roundtrip-lib", addr_hex(ip) + " -> \"" + txt + "\" -> library parse gives " + addr_hex(back));
		unsigned char pb[16];
		if (c.kind == 0) {
			if (inet_pton(AF_INET, txt, pb) != 1 || ntohl(*(uint32_t *)pb) != ip.u.addr4.addr) return Result::fail("C19:roundtrip-pton", addr_hex(ip) + " -> \"" + txt + "\" is not parsed back to the same address by inet_pton");
		} else {
			if (inet_pton(AF_INET6, txt, pb) != 1) return Result::fail("C19:roundtrip-pton", addr_hex(ip) + " -> \"" + txt + "\" is rejected by inet_pton");
			for (int i = 0; i < 4; i++)
				if (ntohl(((uint32_t *)pb)[i]) != ip.u.addr6.addr[i]) return Result::fail("C19:roundtrip-pton", addr_hex(ip) + " -> \"" + txt + "\" parses to a different address with inet_pton");
		}
		if (!lrtr_ip_str_cmp(&ip, txt)) return Result::fail("C19:str_cmp", "lrtr_ip_str_cmp(addr, to_str(addr)) is false for " + addr_hex(ip));
		if (info) {
			if (c.kind == 1) {
				// zero run of length >= 2 not at position 0, or embedded-IPv4 form
				int run = 0, best = 0, bestpos = -1;
				for (int i = 0; i < 8; i++) { if ((c.w[i] & 0xffff) == 0) { run++; if (run > best) { best = run; bestpos = i - run + 1; } } else run = 0; }
				bool emb = strchr(txt, '.') != nullptr;
				info->nontrivial = (best >= 2 && bestpos > 0) || emb;
				info->cls = emb ? "v6-embedded-ipv4" : best >= 2 ? (bestpos == 0 ? "v6-zero-run-at-0" : bestpos + best == 8 ? "v6-zero-run-at-end" : "v6-zero-run-middle") : "v6-no-compression";
			} else { info->nontrivial = true; info->cls = "v4"; }
		}
		return Result::pass();
	}
	// ---- strings
	const char *s = c.s.c_str();
	if (strlen(s) != c.s.size()) return Result::pass(); // embedded NUL: C strings only
	struct lrtr_ip_addr a, b;
	int ra = parse_dirty(s, &a, 0x00);
	int rb = parse_dirty(s, &b, 0xFF);
	if (ra != rb) return Result::fail("C19:nondeterministic-rc", "parsing \"" + vf::jesc(c.s) + "\" returns " + std::to_string(ra) + " or " + std::to_string(rb) + " depending on stack contents");
	if (ra == 0 && !addr_eq(a, b)) return Result::fail("C19:nondeterministic-value", "parsing \"" + vf::jesc(c.s) + "\" succeeds with " + addr_hex(a) + " or " + addr_hex(b) + " depending on previous stack contents (uninitialised words)");
	bool v6 = strchr(s, ':') != nullptr;
	unsigned char pb[16];
	int pr = inet_pton(v6 ? AF_INET6 : AF_INET, s, pb);
	if (pr == 1) {
		if (ra != 0) return Result::fail("C19:pton-accepts-lib-rejects", "inet_pton accepts \"" + vf::jesc(c.s) + "\" but the library rejects it");
		bool same = true;
		if (!v6) same = a.ver == LRTR_IPV4 && ntohl(*(uint32_t *)pb) == a.u.addr4.addr;
		else { same = a.ver == LRTR_IPV6; for (int i = 0; i < 4 && same; i++) same = ntohl(((uint32_t *)pb)[i]) == a.u.addr6.addr[i]; }
		if (!same) return Result::fail("C19:pton-differs", "\"" + vf::jesc(c.s) + "\" parses to " + addr_hex(a) + " but inet_pton gives a different address");
	}
	if (info) {
		info->nontrivial = pr == 1 || ra == 0;
		info->cls = pr == 1 ? "string-accepted-by-inet_pton" : ra == 0 ? "string-accepted-by-library-only" : "string-rejected-by-both";
	}
	return Result::pass();
}

int main(int argc, char **argv)
{
	vf::Args args = vf::parse_args(argc, argv);
	if (args.prop.empty()) args.prop = "C19";
	if (!args.replay.empty())
		return vf::replay_main(args, [&](const std::string &body) { return run_case(parse_case(body), nullptr); });
	vf::Stats st(args);
	double t0 = vf::now_s();
	auto prop = [&](const Case &c) {
		std::string text = case_text(c);
		st.current_case(text);
		Info info;
		vf::Result r = run_case(c, &info);
		st.evaluations++;
		if (!info.cls.empty()) st.cls(info.cls);
		if (info.nontrivial) { st.nontriv(vf::fnv1a(text)); st.sample(text, 8); }
		if (!r.ok && st.on_failure(text, r)) RC_FAIL(r.sig + ": " + r.what);
	};
	// exhaustive core for IPv4: all 12^4 combinations of octet boundary values
	{
		static const uint32_t ob[] = {0, 1, 9, 10, 99, 100, 127, 128, 199, 200, 254, 255};
		bool ok = true;
		for (uint32_t a : ob) for (uint32_t b : ob) for (uint32_t c_ : ob) for (uint32_t d : ob) {
			if (!ok) break;
			Case c;
			c.kind = 0;
			c.w[0] = (a << 24) | (b << 16) | (c_ << 8) | d;
			std::string text = case_text(c);
			vf::Result r = run_case(c, nullptr);
			st.evaluations++;
			st.cls("v4-boundary-grid");
			st.nontriv(vf::fnv1a(text));
			if (!r.ok && st.on_failure(text, r)) ok = false;
		}
	}
	if (!st.failed) rc::check("v4 round trip", [&]() { prop(*genV4()); });
	if (!st.failed) rc::check("v6 round trip", [&]() { prop(*genV6()); });
	if (!st.failed) rc::check("strings: inet_pton differential + determinism", [&]() { prop(*genStr()); });
	st.write(vf::now_s() - t0);
	return 0;
}
