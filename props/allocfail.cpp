// Driver "allocfail": C18 part (a) — every allocation reached by a table-operation history is failed in
// turn (k-th allocation returns NULL once, one forked child per k).  The failing call must report an error
// without crashing and without partial effect (or succeed with its full effect), later operations must agree
// with the model again; in the failure-free run every block must go back to the configured allocator.
#include "common.hpp"
#include "../model/pfx_model.hpp"
#include "../model/spki_model.hpp"
#include "../shim/rtr_shim.h"
#include <rapidcheck.h>
#include <sys/wait.h>
#include <unordered_map>

template <typename T> static rc::Gen<T> rng(T lo, T hi) { return rc::gen::resize(rc::kNominalSize, rc::gen::inRange<T>(lo, (T)(hi + 1))); }
using pm::Rec;
using sm::Key;
static struct rtr_socket g_socks[3];

struct Op { char kind = 'a'; int id = 0, src = 0, n = 0; };
// a/r pfx add/remove, s pfx src_remove, v validate_r, A/R key add/remove, S key src_remove, G get_all, K search_by_ski,
// B bulk key add (n keys: crosses the hash-table grow steps), D bulk key delete, W reload sequence (copy_except + add + swap) on both tables
struct Case { std::vector<Op> ops; };

static std::string case_text(const Case &c)
{
	std::ostringstream o;
	for (auto &p : c.ops) o << p.kind << " " << p.id << " " << p.src << " " << p.n << "\n";
	return o.str();
}
static Case parse_case(const std::string &t)
{
	Case c;
	std::istringstream in(t);
	std::string l;
	while (std::getline(in, l)) {
		std::istringstream ls(l);
		std::string w;
		ls >> w;
		if (w.size() == 1 && w[0] != '#') { Op p; p.kind = w[0]; ls >> p.id >> p.src >> p.n; c.ops.push_back(p); }
	}
	return c;
}
static rc::Gen<Case> genCase()
{
	using namespace rc;
	auto op = gen::apply([](char k, int id, int src, int n) { Op p; p.kind = k; p.id = id; p.src = src; p.n = n; return p; },
			     gen::weightedElement<char>({{24, 'a'}, {18, 'r'}, {5, 's'}, {10, 'v'}, {10, 'A'}, {8, 'R'}, {3, 'S'}, {4, 'G'}, {4, 'K'}, {5, 'B'}, {4, 'D'}, {4, 'W'}}),
			     rng<int>(0, 39), rng<int>(0, 2), rng<int>(28, 44));
	return gen::map(gen::container<std::vector<Op>>(op), [](std::vector<Op> v) { Case c; if (v.size() > 24) v.resize(24); c.ops = v; return c; });
}

static Rec pfx_of(int id, int src)
{
	Rec r;
	id %= 40;
	static const uint8_t b4[4] = {10, 200, 100, 77};
	static const uint8_t b6[16] = {0x20, 1, 0xd, 0xb8, 0xff, 0, 0x80, 1, 0, 0, 0, 0, 0, 0, 0, 9};
	if (id < 26) {
		static const int L[13] = {0, 1, 2, 7, 8, 9, 15, 16, 23, 24, 30, 31, 32};
		r.fam = 0; r.len = L[id % 13]; memcpy(r.a.data(), b4, 4); r.a = pm::masked(r.a, 0, r.len); r.maxlen = id < 13 ? r.len : 32; r.asn = id < 13 ? 100 : 200;
	} else {
		static const int L[7] = {0, 1, 32, 48, 64, 127, 128};
		int j = id - 26;
		r.fam = 1; r.len = L[j % 7]; memcpy(r.a.data(), b6, 16); r.a = pm::masked(r.a, 1, r.len); r.maxlen = j < 7 ? r.len : 128; r.asn = j < 7 ? 100 : 0;
	}
	r.src = src % 3;
	return r;
}
static Key key_of(int id, int src)
{
	Key k;
	for (int i = 0; i < 20; i++) k.ski[i] = (uint8_t)(1 + id % 4 + i);
	k.asn = 500 + (id / 4);
	for (int i = 0; i < 91; i++) k.spki[i] = (uint8_t)(i + id % 3);
	k.src = src % 3;
	return k;
}
static struct lrtr_ip_addr to_addr(int fam, const std::array<uint8_t, 16> &a)
{
	struct lrtr_ip_addr ip;
	memset(&ip, 0, sizeof ip);
	if (fam == 0) { ip.ver = LRTR_IPV4; ip.u.addr4.addr = ((uint32_t)a[0] << 24) | (a[1] << 16) | (a[2] << 8) | a[3]; }
	else { ip.ver = LRTR_IPV6; for (int i = 0; i < 4; i++) ip.u.addr6.addr[i] = ((uint32_t)a[4 * i] << 24) | (a[4 * i + 1] << 16) | (a[4 * i + 2] << 8) | a[4 * i + 3]; }
	return ip;
}
static struct pfx_record to_lib(const Rec &m)
{
	struct pfx_record r;
	memset(&r, 0, sizeof r);
	r.asn = m.asn; r.prefix = to_addr(m.fam, m.a); r.min_len = m.len; r.max_len = m.maxlen; r.socket = &g_socks[m.src];
	return r;
}
static struct spki_record to_lib(const Key &k)
{
	struct spki_record r;
	memset(&r, 0, sizeof r);
	r.asn = k.asn; memcpy(r.ski, k.ski.data(), 20); memcpy(r.spki, k.spki.data(), 91); r.socket = &g_socks[k.src];
	return r;
}
static int src_index(const struct rtr_socket *s) { for (int i = 0; i < 3; i++) if (s == &g_socks[i]) return i; return -1; }
static Rec from_lib(const struct pfx_record *r)
{
	Rec m;
	m.fam = r->prefix.ver == LRTR_IPV4 ? 0 : 1;
	if (m.fam == 0) { uint32_t x = r->prefix.u.addr4.addr; m.a[0] = x >> 24; m.a[1] = x >> 16; m.a[2] = x >> 8; m.a[3] = x; }
	else for (int i = 0; i < 4; i++) { uint32_t x = r->prefix.u.addr6.addr[i]; m.a[4 * i] = x >> 24; m.a[4 * i + 1] = x >> 16; m.a[4 * i + 2] = x >> 8; m.a[4 * i + 3] = x; }
	m.len = r->min_len; m.maxlen = r->max_len; m.asn = r->asn; m.src = src_index(r->socket);
	return m;
}

// ---------------------------------------------------------------- the injected allocator
struct Ledger { std::unordered_map<void *, long> live; long seq = 0, fail_at = 0; bool failed = false; long foreign = 0; };
static Ledger L;
static void *l_malloc(size_t n)
{
	long k = ++L.seq;
	if (L.fail_at && k == L.fail_at) { L.failed = true; return nullptr; }
	void *p = malloc(n ? n : 1);
	if (p) L.live[p] = k;
	return p;
}
static void l_free(void *p)
{
	if (!p) return;
	auto it = L.live.find(p);
	if (it == L.live.end()) { L.foreign++; return; }
	L.live.erase(it);
	free(p);
}
static void *l_realloc(void *p, size_t n)
{
	if (!p) return l_malloc(n);
	long k = ++L.seq;
	if (L.fail_at && k == L.fail_at) { L.failed = true; return nullptr; }
	auto it = L.live.find(p);
	if (it == L.live.end()) { L.foreign++; return nullptr; }
	void *q = realloc(p, n ? n : 1);
	if (q) { L.live.erase(p); L.live[q] = k; }
	return q;
}

static void enum_cb(const struct pfx_record *r, void *d) { ((std::vector<Rec> *)d)->push_back(from_lib(r)); }

struct RunOut { bool ok = true; std::string sig, what; long allocs = 0; long leaked = 0; long foreign = 0; bool hit = false; bool halfway = false; };

// Executes the history with allocation `fail_at` failing (0 = never).  Everything the tables allocate goes through the ledger.
static RunOut execute(const Case &c, long fail_at)
{
	RunOut out;
	auto FAIL = [&](const std::string &sig, const std::string &what) { if (out.ok) { out.ok = false; out.sig = sig; out.what = what; } };
	L = Ledger();
	lrtr_set_alloc_functions(l_malloc, l_realloc, l_free);
	struct pfx_table pt;
	pfx_table_init(&pt, nullptr);
	struct spki_table *st = (struct spki_table *)malloc(shim_spki_table_sizeof());
	spki_table_init(st, nullptr);
	long base = L.seq;
	L.fail_at = fail_at ? base + fail_at : 0;
	pm::Table pm_;
	sm::Table sm_;
	struct pfx_record *reuse_reason = nullptr;
	unsigned int reuse_n = 0;
	auto contents_ok = [&](const std::string &after) {
		long save = L.fail_at;
		L.fail_at = 0; // observation itself must not be disturbed
		std::vector<Rec> v;
		pfx_table_for_each_ipv4_record(&pt, enum_cb, &v);
		pfx_table_for_each_ipv6_record(&pt, enum_cb, &v);
		std::sort(v.begin(), v.end());
		std::vector<Rec> want(pm_.s.begin(), pm_.s.end());
		if (v != want) FAIL("C18:pfx-contents-after-failed-allocation", "prefix table holds " + std::to_string(v.size()) + " records, the model " + std::to_string(want.size()) + " after " + after);
		std::vector<Key> kv;
		for (int s = 0; s < 4; s++) {
			Key k = key_of(s, 0);
			struct spki_record *res = nullptr;
			unsigned int n = 0;
			spki_table_search_by_ski(st, k.ski.data(), &res, &n);
			for (unsigned i = 0; i < n; i++) { Key x; x.asn = res[i].asn; memcpy(x.ski.data(), res[i].ski, 20); memcpy(x.spki.data(), res[i].spki, 91); x.src = src_index(res[i].socket); kv.push_back(x); }
			lrtr_free(res);
		}
		std::sort(kv.begin(), kv.end());
		std::vector<Key> kw(sm_.s.begin(), sm_.s.end());
		if (kv != kw) FAIL("C18:spki-contents-after-failed-allocation", "router-key table holds " + std::to_string(kv.size()) + " keys, the model " + std::to_string(kw.size()) + " after " + after);
		if (shim_spki_count(st) != sm_.s.size()) FAIL("C18:spki-hash-list-disagree", "hash side holds " + std::to_string(shim_spki_count(st)) + " entries, list side " + std::to_string(kv.size()) + " after " + after);
		L.fail_at = save;
	};
	for (size_t oi = 0; oi < c.ops.size() && out.ok; oi++) {
		const Op &o = c.ops[oi];
		bool failed_before = L.failed;
		long seq_before = L.seq;
		std::string tag = "op#" + std::to_string(oi) + " " + o.kind;
		// returns: model rc if applied, and what the library said
		auto settle = [&](int lib_rc, int model_rc_if_applied, const std::function<void()> &apply_model, bool err_is_minus1 = true) {
			bool hit_now = L.failed && !failed_before;
			if (lib_rc == -1 && err_is_minus1) {
				if (!hit_now) FAIL("C18:error-without-allocation-failure", tag + " returned an error although no allocation failed");
				// no partial effect: model untouched
			} else {
				if (lib_rc != model_rc_if_applied) FAIL("C18:return-code", tag + " returned " + std::to_string(lib_rc) + ", model says " + std::to_string(model_rc_if_applied) + (hit_now ? " (an allocation failed during the call)" : ""));
				apply_model();
			}
			if (hit_now) { out.hit = true; if (L.fail_at - 1 > seq_before) out.halfway = true; }
			if (hit_now || failed_before == false) { /* contents are compared after every op below */ }
		};
		switch (o.kind) {
		case 'a': { Rec r = pfx_of(o.id, o.src); struct pfx_record lr = to_lib(r); int rc = pfx_table_add(&pt, &lr); settle(rc, pm_.s.count(r) ? -2 : 0, [&] { pm_.add(r); }); break; }
		case 'r': { Rec r = pfx_of(o.id, o.src); struct pfx_record lr = to_lib(r); int rc = pfx_table_remove(&pt, &lr); settle(rc, pm_.s.count(r) ? 0 : -3, [&] { pm_.remove(r); }); break; }
		case 's': { int rc = pfx_table_src_remove(&pt, &g_socks[o.src % 3]); settle(rc, 0, [&] { pm_.src_remove(o.src % 3); }); break; }
		case 'v': {
			Rec r = pfx_of(o.id, 0);
			struct lrtr_ip_addr ip = to_addr(r.fam, r.a);
			// the reason array of the previous validation is handed in again (the API reallocates / releases it)
			struct pfx_record *&reason = reuse_reason;
			unsigned int &n = reuse_n;
			enum pfxv_state s = (enum pfxv_state)9;
			int rc = pfx_table_validate_r(&pt, &reason, &n, 100 + o.src * 100, &ip, r.len, &s);
			bool hit_now = L.failed && !failed_before;
			if (rc == -1) { if (!hit_now) FAIL("C18:error-without-allocation-failure", tag + " failed without an allocation failure"); if (reason || n) FAIL("C18:reason-after-error", tag + " returned an error but left a reason array"); }
			else if ((int)s != (int)pm_.validate(100 + o.src * 100, r.fam, r.a, r.len)) FAIL("C18:validate-after-failed-allocation", tag + " gives state " + std::to_string(s));
			if (hit_now) out.hit = true;
			break;
		}
		case 'A': { Key k = key_of(o.id, o.src); struct spki_record lr = to_lib(k); int rc = spki_table_add_entry(st, &lr); settle(rc, sm_.s.count(k) ? -2 : 0, [&] { sm_.add(k); }); break; }
		case 'R': { Key k = key_of(o.id, o.src); struct spki_record lr = to_lib(k); int rc = spki_table_remove_entry(st, &lr); settle(rc, sm_.s.count(k) ? 0 : -3, [&] { sm_.remove(k); }); break; }
		case 'S': { int rc = spki_table_src_remove(st, &g_socks[o.src % 3]); settle(rc, 0, [&] { sm_.src_remove(o.src % 3); }); break; }
		case 'G': case 'K': {
			Key k = key_of(o.id, 0);
			struct spki_record *res = nullptr;
			unsigned int n = 0;
			int rc = o.kind == 'G' ? spki_table_get_all(st, k.asn, k.ski.data(), &res, &n) : spki_table_search_by_ski(st, k.ski.data(), &res, &n);
			bool hit_now = L.failed && !failed_before;
			size_t want = o.kind == 'G' ? sm_.get_all(k.asn, k.ski).size() : sm_.by_ski(k.ski).size();
			if (rc == -1) { if (!hit_now) FAIL("C18:error-without-allocation-failure", tag + " failed without an allocation failure"); }
			else { if (n != want) FAIL("C18:lookup-after-failed-allocation", tag + " returned " + std::to_string(n) + " keys, model " + std::to_string(want)); lrtr_free(res); }
			if (hit_now) out.hit = true;
			break;
		}
		case 'B': // bulk add: every key is its own operation
			for (int i = 0; i < o.n && out.ok; i++) {
				failed_before = L.failed;
				seq_before = L.seq;
				Key k = key_of(100 + o.id * 100 + i, o.src);
				struct spki_record lr = to_lib(k);
				int rc = spki_table_add_entry(st, &lr);
				settle(rc, sm_.s.count(k) ? -2 : 0, [&] { sm_.add(k); });
			}
			break;
		case 'D': {
			std::vector<Key> victims;
			int i = 0;
			for (auto &k : sm_.s) if (i++ % 1 == 0 && (int)victims.size() < o.n) victims.push_back(k);
			for (auto &k : victims) {
				if (!out.ok) break;
				failed_before = L.failed;
				seq_before = L.seq;
				struct spki_record lr = to_lib(k);
				int rc = spki_table_remove_entry(st, &lr);
				settle(rc, 0, [&] { sm_.remove(k); });
			}
			break;
		}
		case 'W': { // the reload sequence on scratch copies: copy everybody else's records aside; a failure must leave the live tables alone
			int s = o.src % 3;
			struct pfx_table sh;
			pfx_table_init(&sh, nullptr);
			int rc = pfx_table_copy_except_socket(&pt, &sh, &g_socks[s]);
			bool hit_now = L.failed && !failed_before;
			if (rc == -1 && !hit_now) FAIL("C18:error-without-allocation-failure", tag + " pfx copy failed without an allocation failure");
			if (rc == 0) {
				std::vector<Rec> v;
				pfx_table_for_each_ipv4_record(&sh, enum_cb, &v);
				pfx_table_for_each_ipv6_record(&sh, enum_cb, &v);
				size_t want = 0;
				for (auto &r : pm_.s) if (r.src != s) want++;
				if (v.size() != want) FAIL("C18:copy-incomplete", tag + " copied " + std::to_string(v.size()) + " of " + std::to_string(want) + " records but reported success");
				pfx_table_swap(&pt, &sh);
				pm_.src_remove(s);
			}
			pfx_table_free_without_notify(&sh);
			struct spki_table *ksh = (struct spki_table *)malloc(shim_spki_table_sizeof());
			bool fb2 = L.failed;
			int rc2 = spki_table_init(ksh, nullptr);
			if (rc2 == 0) rc2 = spki_table_copy_except_socket(st, ksh, &g_socks[s]);
			bool hit2 = L.failed && !fb2;
			if (rc2 == -1 && !hit2) FAIL("C18:error-without-allocation-failure", tag + " key copy failed without an allocation failure");
			if (rc2 == 0) {
				size_t want = 0;
				for (auto &k : sm_.s) if (k.src != s) want++;
				if (shim_spki_count(ksh) != want) FAIL("C18:copy-incomplete", tag + " copied " + std::to_string(shim_spki_count(ksh)) + " of " + std::to_string(want) + " keys but reported success");
				spki_table_swap(st, ksh);
				sm_.src_remove(s);
			}
			spki_table_free_without_notify(ksh);
			free(ksh);
			if (hit_now || hit2) out.hit = true;
			break;
		}
		}
		if (out.ok) contents_ok(tag);
	}
	L.fail_at = 0;
	out.allocs = L.seq - base;
	lrtr_free(reuse_reason);
	pfx_table_free(&pt);
	spki_table_free(st);
	free(st);
	out.leaked = (long)L.live.size();
	out.foreign = L.foreign;
	lrtr_set_alloc_functions(malloc, realloc, free);
	return out;
}

struct Info { long allocs = 0, forks = 0, halfway = 0; };
static vf::Stats *g_st = nullptr; // for known-finding exclusion inside the k loop

// child per k; returns failure description or empty
static vf::Result enumerate(const Case &c, Info *info, long only_k = 0)
{
	using vf::Result;
	RunOut r0 = execute(c, 0);
	if (!r0.ok) return Result::fail(r0.sig, "failure-free run: " + r0.what);
	if (r0.leaked) return Result::fail("C18:blocks-not-returned-to-allocator", std::to_string(r0.leaked) + " block(s) obtained from the configured allocator were not returned to it when the tables were freed (released with another allocator's free, or leaked)");
	if (r0.foreign) return Result::fail("C18:foreign-block-freed", std::to_string(r0.foreign) + " block(s) the configured allocator never handed out were passed to its free");
	if (info) info->allocs = r0.allocs;
	for (long k = 1; k <= r0.allocs; k++) {
		if (only_k && k != only_k) continue;
		// in-process: a crash (sanitizer report, signal) ends the driver, whose <out>.current file then names history and k
		if (g_st) g_st->current_case(case_text(c) + "# failing allocation k=" + std::to_string(k) + " of " + std::to_string(r0.allocs) + "\n");
		RunOut r = execute(c, k);
		if (info) { info->forks++; if (r.halfway) info->halfway++; }
		if (r.ok && r.foreign) {
			// a block the allocator does not know (any more) was handed to its free(): released twice on the error path, or obtained elsewhere
			r.ok = false;
			r.sig = "C18:block-released-twice-after-allocation-failure";
			r.what = std::to_string(r.foreign) + " call(s) of the configured free() / realloc() with a block that is not (or no longer) allocated";
		}
		if (r.ok) continue;
		Result fr = Result::fail(r.sig, "allocation #" + std::to_string(k) + " of " + std::to_string(r0.allocs) + " fails: " + r.what);
		if (g_st && g_st->is_known(fr.sig)) { g_st->on_failure(case_text(c) + "# k=" + std::to_string(k), fr); continue; }
		return fr;
	}
	return Result::pass();
}

int main(int argc, char **argv)
{
	vf::Args args = vf::parse_args(argc, argv);
	if (args.prop.empty()) args.prop = "C18";
	if (!args.replay.empty()) return vf::replay_main(args, [&](const std::string &body) { return enumerate(parse_case(body), nullptr); });
	vf::Stats st(args);
	g_st = &st;
	double t0 = vf::now_s();
	rc::check("allocation failure enumeration", [&]() {
		Case c = *genCase();
		std::string text = case_text(c);
		st.current_case(text);
		Info info;
		vf::Result r = enumerate(c, &info);
		st.evaluations += 1 + info.forks;
		st.extra["histories"] += 1;
		st.extra["allocation-failures-injected"] += info.forks;
		st.extra["failures-hitting-a-half-done-operation"] += info.halfway;
		for (long k = 1; k <= info.halfway; k++) st.nontriv(vf::fnv1a(text + "#" + std::to_string(k)));
		if (info.halfway) st.sample(text.size() > 400 ? text.substr(0, 400) + "..." : text, 4);
		if (r.sig.find("tommy") != std::string::npos) st.cls("crash-in-tommyds");
		if (!r.ok && st.on_failure(text, r)) RC_FAIL(r.sig + ": " + r.what);
	});
	st.write(vf::now_s() - t0);
	return 0;
}
