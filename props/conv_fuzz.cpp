// libFuzzer target "conv_fuzz": coverage-guided search over conversation scripts decoded from bytes
// (engine/script.hpp from_bytes: every input decodes to a script).  The semantic oracles of the simulator
// run inside the target; a failure charged to the property under test (VERIF_FUZZ_PROP, default C04)
// or any sanitizer report / assertion / hang aborts with the input saved by libFuzzer.
//   VERIF_TOTEXT=<file>  : print the text form of the script encoded in <file> and exit (replay conversion)
#include "../engine/convsim.hpp"
#include "../engine/nontrivial.hpp"
#include <cstdio>
#include <cstdlib>
#include <fstream>
#include <map>
#include <set>
#include <sstream>
#include <string>

using namespace cs;
static std::map<std::string, long> g_cls;
static std::set<uint64_t> g_nontrivial;
static long g_evals = 0, g_other_prop = 0;
static std::string g_prop = "C04";
static std::vector<std::string> g_samples;

static uint64_t fnv(const uint8_t *p, size_t n) { uint64_t h = 1469598103934665603ULL; for (size_t i = 0; i < n; i++) { h ^= p[i]; h *= 1099511628211ULL; } return h; }

static void dump()
{
	const char *out = getenv("VERIF_FUZZ_OUT");
	if (!out) return;
	std::ofstream f(out);
	f << "{\"evaluations\":" << g_evals << ",\"other_property_failures\":" << g_other_prop << ",\"nontrivial_hashes\":[";
	bool first = true;
	for (auto h : g_nontrivial) { if (!first) f << ","; first = false; f << "\"" << std::hex << h << std::dec << "\""; }
	f << "],\"classes\":{";
	first = true;
	for (auto &kv : g_cls) { if (!first) f << ","; first = false; f << "\"" << kv.first << "\":" << kv.second; }
	f << "},\"samples\":[";
	first = true;
	for (auto &s : g_samples) {
		if (!first) f << ",";
		first = false;
		f << "\"";
		for (char c : s) { if (c == '\n') f << "\\n"; else if (c == '"' || c == '\\') f << '\\' << c; else f << c; }
		f << "\"";
	}
	f << "]}\n";
}

extern "C" int LLVMFuzzerInitialize(int *, char ***)
{
	if (getenv("VERIF_FUZZ_PROP")) g_prop = getenv("VERIF_FUZZ_PROP");
	if (const char *t = getenv("VERIF_TOTEXT")) {
		std::ifstream f(t, std::ios::binary);
		std::stringstream ss;
		ss << f.rdbuf();
		std::string b = ss.str();
		printf("%s", to_text(from_bytes((const uint8_t *)b.data(), b.size())).c_str());
		exit(0);
	}
	atexit(dump);
	return 0;
}

extern "C" int LLVMFuzzerTestOneInput(const uint8_t *data, size_t size)
{
	if (size > 4096) return 0;
	Script sc = from_bytes(data, size);
	Options opt;
	opt.trace = false;
	opt.focus = g_prop;
	Report r = run(sc, opt);
	g_evals++;
	bool nt = false;
	for (auto &kv : r.cls) {
		g_cls[kv.first] += kv.second;
		if (kv.first.compare(0, 6, "fault:") == 0 || kv.first == "short-reads" || kv.first == "hostile-or-raw-payload(set-oracles-off-afterwards)") nt = true;
	}
	if (g_prop != "C04") nt = nontrivial(g_prop, r); // the property's own rule (engine/nontrivial.hpp)
	if (nt) {
		g_nontrivial.insert(fnv(data, size));
		if (g_samples.size() < 4 && g_evals % 50 == 1) g_samples.push_back(to_text(sc).substr(0, 600));
	}
	if (!r.ok) {
		if (r.prop == g_prop) {
			fprintf(stderr, "VERIF-FUZZ-FAILURE %s: %s\n", r.sig.c_str(), r.what.c_str());
			dump();
			__builtin_trap();
		}
		g_other_prop++;
	}
	return 0;
}
