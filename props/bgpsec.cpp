// Driver "bgpsec": C11 (validation = every hop verifies under a key of its AS) and C12 (generated
// signatures verify under an independent RFC 8205 implementation).  DESIGN.md §7 C11/C12.
#include "common.hpp"
#include "../model/rfc8205.hpp"
#include "../shim/rtr_shim.h"
#include <rapidcheck.h>
#include <openssl/ecdsa.h>
extern "C" {
#include "rtrlib/bgpsec/bgpsec.h"
int rtr_bgpsec_validate_as_path(const struct rtr_bgpsec *data, struct spki_table *table);
int rtr_bgpsec_generate_signature(const struct rtr_bgpsec *data, uint8_t *private_key, struct rtr_signature_seg **new_signature);
struct rtr_secure_path_seg *rtr_bgpsec_new_secure_path_seg(uint8_t pcount, uint8_t flags, uint32_t asn);
struct rtr_signature_seg *rtr_bgpsec_new_signature_seg(uint8_t *ski, uint16_t sig_len, uint8_t *signature);
void rtr_bgpsec_append_sec_path_seg(struct rtr_bgpsec *bgpsec, struct rtr_secure_path_seg *new_seg);
int rtr_bgpsec_append_sig_seg(struct rtr_bgpsec *bgpsec, struct rtr_signature_seg *new_seg);
struct rtr_bgpsec *rtr_bgpsec_new(uint8_t alg, uint8_t safi, uint16_t afi, uint32_t my_as, uint32_t target_as, struct rtr_bgpsec_nlri *nlri);
struct rtr_bgpsec_nlri *rtr_bgpsec_nlri_new(int nlri_len);
void rtr_bgpsec_free(struct rtr_bgpsec *bgpsec);
void rtr_bgpsec_free_signatures(struct rtr_signature_seg *seg);
#include "rtrlib/rtr_mgr.h"
}
using namespace b8205;

template <typename T> static rc::Gen<T> rng(T lo, T hi) { return rc::gen::resize(rc::kNominalSize, rc::gen::inRange<T>(lo, (T)(hi + 1))); }

static std::vector<KeyPair> g_keys; // pool of 6 (SKIs repeat: keys 0/3, 1/4 share an SKI)
static const uint32_t AS_POOL[] = {1, 64496, 64497, 65536, 4200000000u, 0, 0xffffffffu};
static struct rtr_socket g_sock;

struct HopSpec { int pcount = 1, flags = 0, as = 0, key = 0, table = 0; };
struct Case {
	int mode = 0; // 0: C11 model-signed, 1: C12 library-signed
	std::vector<HopSpec> hops;
	int target = 0, afi = 1, safi = 1, nlri_len = 24, alg = 1;
	std::vector<uint8_t> nlri;
	int corrupt = 0;	   // 0 none, 1 single-bit flip, 2 segment-count mismatch, 3 bad private key (C12)
	int field = 0, bit = 0, hop = 0;
};

static std::string case_text(const Case &c)
{
	std::ostringstream o;
	o << "case " << c.mode << " " << c.target << " " << c.afi << " " << c.safi << " " << c.nlri_len << " " << c.alg << " " << c.corrupt << " " << c.field << " " << c.bit << " " << c.hop << " ";
	for (auto b : c.nlri) { char h[3]; snprintf(h, 3, "%02x", b); o << h; }
	o << "-\n";
	for (auto &h : c.hops) o << "hop " << h.pcount << " " << h.flags << " " << h.as << " " << h.key << " " << h.table << "\n";
	return o.str();
}
static Case parse_case(const std::string &t)
{
	Case c;
	std::istringstream in(t);
	std::string l;
	while (std::getline(in, l)) {
		std::istringstream ls(l);
		std::string w;
		ls >> w;
		if (w == "case") {
			std::string hex;
			ls >> c.mode >> c.target >> c.afi >> c.safi >> c.nlri_len >> c.alg >> c.corrupt >> c.field >> c.bit >> c.hop >> hex;
			for (size_t i = 0; i + 1 < hex.size() && hex[i] != '-'; i += 2) c.nlri.push_back((uint8_t)strtoul(hex.substr(i, 2).c_str(), nullptr, 16));
		} else if (w == "hop") {
			HopSpec h;
			ls >> h.pcount >> h.flags >> h.as >> h.key >> h.table;
			c.hops.push_back(h);
		}
	}
	return c;
}

static rc::Gen<Case> genCase(int mode, int max_hops)
{
	using namespace rc;
	auto hop = gen::apply([](int pc, int fl, int as, int key, int tab) { HopSpec h; h.pcount = pc; h.flags = fl; h.as = as; h.key = key; h.table = tab; return h; },
			      gen::weightedOneOf<int>({{3, gen::just(1)}, {1, rng<int>(0, 255)}}), gen::weightedOneOf<int>({{3, gen::just(0)}, {1, gen::element<int>(0x80, 1, 0xff)}}),
			      rng<int>(0, 6), rng<int>(0, 5),
			      // key table for this hop: 0 right key/right AS, 1 + decoys under the same SKI, 2 right key under another AS only, 3 garbage key, 4 no key, 5 right key under right AS and under another AS
			      gen::weightedElement<int>({{8, 0}, {4, 1}, {2, 2}, {1, 3}, {1, 4}, {2, 5}}));
	return gen::apply(
		[mode](std::vector<HopSpec> hops, HopSpec first, int target, int afi, int safi, int nl4, int nl6, int alg, std::vector<uint8_t> nb, int corrupt, int field, int bit, int hopi) {
			Case c;
			c.mode = mode;
			hops.insert(hops.begin(), first);
			c.hops = hops;
			c.target = target;
			c.afi = afi;
			c.safi = safi;
			c.nlri_len = afi == 2 ? nl6 : nl4;
			c.alg = alg;
			nb.resize(32);
			c.nlri = nb;
			c.corrupt = corrupt;
			c.field = field;
			c.bit = bit;
			c.hop = hopi;
			if (mode == 1) for (auto &h : c.hops) h.table = 0;
			return c;
		},
		gen::resize(max_hops - 1, gen::container<std::vector<HopSpec>>(hop)), hop, rng<int>(0, 6), gen::weightedElement<int>({{10, 1}, {10, 2}, {1, 0}, {1, 3}, {1, 25}}),
		gen::weightedElement<int>({{8, 1}, {1, 2}, {1, 128}}), rng<int>(0, 32), rng<int>(0, 128), gen::weightedElement<int>({{20, 1}, {1, 0}, {1, 2}}),
		gen::container<std::vector<uint8_t>>(32, gen::arbitrary<uint8_t>()),
		mode == 0 ? gen::weightedElement<int>({{5, 0}, {6, 1}, {1, 2}}) : gen::weightedElement<int>({{8, 0}, {1, 2}, {2, 3}}), rng<int>(0, 10), rng<int>(0, 1023), rng<int>(0, 63));
}

struct KeyEntry { std::array<uint8_t, 20> ski; uint32_t asn; Bytes spki; };

static struct rtr_bgpsec *to_lib(const Update &u, size_t n_path, size_t n_sigs)
{
	struct rtr_bgpsec_nlri *nl = rtr_bgpsec_nlri_new(32);
	nl->afi = u.afi;
	nl->safi = u.safi;
	nl->nlri_len = u.nlri_len;
	memset(nl->nlri, 0, 32);
	memcpy(nl->nlri, u.nlri.data(), std::min<size_t>(32, u.nlri.size()));
	uint32_t target = n_path < u.hops.size() ? u.hops[n_path].asn : u.target_as;
	struct rtr_bgpsec *b = rtr_bgpsec_new(u.alg, u.safi, u.afi, n_path ? u.hops[n_path - 1].asn : 0, target, nl);
	// lists are in AS-path order: newest first
	for (size_t i = n_path; i-- > 0;) rtr_bgpsec_append_sec_path_seg(b, rtr_bgpsec_new_secure_path_seg(u.hops[i].pcount, u.hops[i].flags, u.hops[i].asn));
	for (size_t i = n_sigs; i-- > 0;) {
		const Hop &h = u.hops[i];
		struct rtr_signature_seg *s = rtr_bgpsec_new_signature_seg((uint8_t *)h.ski.data(), (uint16_t)h.sig.size(), (uint8_t *)h.sig.data());
		// rtr_bgpsec_append_sig_seg refuses empty signatures / all-zero SKIs; link by hand then
		if (rtr_bgpsec_append_sig_seg(b, s) != 0) {
			struct rtr_signature_seg **pp = &b->sigs;
			while (*pp) pp = &(*pp)->next;
			*pp = s;
			b->sigs_len++;
		}
	}
	return b;
}

struct Info { bool nontrivial = false; std::vector<std::string> cls; };

static vf::Result run_case(const Case &c, Info *info)
{
	using vf::Result;
	Update u;
	u.alg = (uint8_t)c.alg;
	u.afi = (uint16_t)c.afi;
	u.safi = (uint8_t)c.safi;
	u.nlri_len = (uint8_t)c.nlri_len;
	u.nlri.assign(c.nlri.begin(), c.nlri.begin() + std::min<size_t>(c.nlri.size(), (size_t)((c.nlri_len + 7) / 8)));
	u.nlri.resize((c.nlri_len + 7) / 8, 0);
	u.target_as = AS_POOL[(unsigned)c.target % 7];
	std::vector<const KeyPair *> kp;
	for (auto &h : c.hops) {
		Hop x;
		x.pcount = (uint8_t)h.pcount;
		x.flags = (uint8_t)h.flags;
		x.asn = AS_POOL[(unsigned)h.as % 7];
		const KeyPair &k = g_keys[(unsigned)h.key % g_keys.size()];
		x.ski = k.ski;
		kp.push_back(&k);
		u.hops.push_back(x);
	}
	size_t N = u.hops.size();
	if (info) {
		if (N >= 3) info->cls.push_back("hops>=3");
		if (c.afi == 2) info->cls.push_back("ipv6-nlri");
		if (c.nlri_len % 8) info->cls.push_back("nlri-length-not-multiple-of-8");
		info->nontrivial = N >= 3 || c.afi == 2 || (c.nlri_len % 8) != 0;
	}
	// key table
	struct spki_table *tab = shim_spki_table_new(nullptr);
	std::vector<KeyEntry> entries;
	auto add_key = [&](const std::array<uint8_t, 20> &ski, uint32_t asn, const Bytes &spki) {
		struct spki_record r;
		memset(&r, 0, sizeof r);
		memcpy(r.ski, ski.data(), 20);
		r.asn = asn;
		memcpy(r.spki, spki.data(), std::min<size_t>(91, spki.size()));
		r.socket = &g_sock;
		if (spki_table_add_entry(tab, &r) == 0) entries.push_back({ski, asn, Bytes(r.spki, r.spki + 91)});
	};
	for (size_t i = 0; i < N; i++) {
		const HopSpec &h = c.hops[i];
		const KeyPair &k = *kp[i];
		uint32_t asn = u.hops[i].asn;
		Bytes garbage(91, 0x41);
		switch (h.table) {
		case 0: add_key(k.ski, asn, k.spki); break;
		case 1: add_key(k.ski, asn, garbage); add_key(k.ski, asn ^ 1, g_keys[(h.key + 1) % g_keys.size()].spki); add_key(k.ski, asn, k.spki); add_key(k.ski, asn, g_keys[(h.key + 2) % g_keys.size()].spki); if (info) { info->cls.push_back(">=2-keys-under-one-ski"); info->nontrivial = true; } break;
		case 2: add_key(k.ski, asn + 1, k.spki); if (info) info->cls.push_back("right-key-under-another-as-only"); break;
		case 3: add_key(k.ski, asn, garbage); break;
		case 4: break;
		default: add_key(k.ski, asn, k.spki); add_key(k.ski, asn + 7, k.spki); break;
		}
	}
	Result res;
	auto FAIL = [&](const std::string &sig, const std::string &what) { if (res.ok) res = Result::fail(sig, what); };
	auto model_hop_ok = [&](size_t k, bool need_as) {
		Bytes d = digest_input(u, k);
		for (auto &e : entries)
			if (e.ski == u.hops[k].ski && (!need_as || e.asn == u.hops[k].asn) && evp_verify_spki(e.spki.data(), e.spki.size(), d, u.hops[k].sig)) return true;
		return false;
	};
	auto ski_known = [&](size_t k) { for (auto &e : entries) if (e.ski == u.hops[k].ski) return true; return false; };

	if (c.mode == 0) {
		// ------------------------------------------------ C11: paths signed by the model
		for (size_t k = 0; k < N; k++) u.hops[k].sig = evp_sign(kp[k]->pkey, digest_input(u, k));
		size_t n_sigs = N;
		std::string what_corrupt = "none";
		if (c.corrupt == 1) {
			size_t hi = (size_t)c.hop % N;
			int f = c.field % 11, bit = c.bit;
			if (info) info->cls.push_back("single-bit-corruption");
			switch (f) {
			case 0: u.target_as ^= 1u << (bit % 32); what_corrupt = "target AS"; break;
			case 1: u.hops[hi].pcount ^= 1u << (bit % 8); what_corrupt = "pCount of hop " + std::to_string(hi); break;
			case 2: u.hops[hi].flags ^= 1u << (bit % 8); what_corrupt = "flags of hop " + std::to_string(hi); break;
			case 3: u.hops[hi].asn ^= 1u << (bit % 32); what_corrupt = "AS of hop " + std::to_string(hi); break;
			case 4: u.afi ^= 1u << (bit % 16); what_corrupt = "AFI"; break;
			case 5: u.safi ^= 1u << (bit % 8); what_corrupt = "SAFI"; break;
			case 6: if (!u.nlri.empty()) { u.nlri[(bit / 8) % u.nlri.size()] ^= 1u << (bit % 8); what_corrupt = "NLRI bits"; } else { u.nlri_len ^= 1; u.nlri.resize((u.nlri_len + 7) / 8, 0); what_corrupt = "NLRI length"; } break;
			case 7: u.hops[hi].ski[(bit / 8) % 20] ^= 1u << (bit % 8); what_corrupt = "SKI of hop " + std::to_string(hi); break;
			case 8: if (!u.hops[hi].sig.empty()) { u.hops[hi].sig[(bit / 8) % u.hops[hi].sig.size()] ^= 1u << (bit % 8); what_corrupt = "signature of hop " + std::to_string(hi); } break;
			case 10: u.alg ^= (uint8_t)(1u << (bit % 8)); what_corrupt = "algorithm suite"; break;
			default: u.nlri_len ^= 1u << (bit % 8); u.nlri.resize((u.nlri_len + 7) / 8, 0); what_corrupt = "NLRI length"; break;
			}
		}
		size_t n_path = N;
		if (c.corrupt == 2 && N >= 1) {
			// one Signature Segment too few, or one Secure_Path Segment too few
			if (c.field % 2 == 0 || N == 1) { n_sigs = N - 1; if (info) info->cls.push_back("segment-count-mismatch(fewer-signatures)"); }
			else { n_path = N - 1; if (info) info->cls.push_back("segment-count-mismatch(fewer-path-segments)"); }
		}
		bool strict = true, relaxed = true, all_ski = true;
		if (n_sigs == N && n_path == N)
			for (size_t k = 0; k < N; k++) {
				if (!model_hop_ok(k, true)) strict = false;
				if (!model_hop_ok(k, false)) relaxed = false;
				if (!ski_known(k)) all_ski = false;
			}
		bool supported = u.alg == 1 && (u.afi == 1 || u.afi == 2);
		struct rtr_bgpsec *b = to_lib(u, n_path, n_sigs);
		int got = n_sigs == 0 ? -99 : rtr_bgpsec_validate_as_path(b, tab);
		if (n_sigs != 0) {
			// the public entry point of the connection manager must give the same answer
			struct rtr_mgr_config mcfg;
			memset(&mcfg, 0, sizeof mcfg);
			mcfg.spki_table = tab;
			int got2 = rtr_mgr_bgpsec_validate_as_path(b, &mcfg);
			if (got2 != got) FAIL("C11:mgr-entry-point-differs", "rtr_mgr_bgpsec_validate_as_path gives " + std::to_string(got2) + ", rtr_bgpsec_validate_as_path gives " + std::to_string(got));
		}
		rtr_bgpsec_free(b);
		std::string ctx = " [hops=" + std::to_string(N) + " afi=" + std::to_string(u.afi) + " nlri_len=" + std::to_string(u.nlri_len) + " corruption=" + what_corrupt + "]";
		if (info) info->cls.push_back(strict && supported && n_sigs == N && n_path == N ? "expected-valid" : "expected-not-valid");
		if (n_sigs == 0) { /* a path without signature segments is rejected as invalid arguments before anything else */ }
		else if (n_sigs != n_path) { if (got != RTR_BGPSEC_WRONG_SEGMENT_COUNT) FAIL("C11:segment-count-code", "unequal segment counts gave " + std::to_string(got) + ctx); }
		else if (u.alg != 1 && (u.afi == 1 || u.afi == 2)) { if (got != RTR_BGPSEC_UNSUPPORTED_ALGORITHM_SUITE) FAIL("C11:suite-code", "algorithm suite " + std::to_string(u.alg) + " gave " + std::to_string(got) + ctx); }
		else if (u.alg == 1 && !(u.afi == 1 || u.afi == 2)) { if (got != RTR_BGPSEC_UNSUPPORTED_AFI) FAIL("C11:afi-code", "AFI " + std::to_string(u.afi) + " gave " + std::to_string(got) + ctx); }
		else if (!supported) { if (got == RTR_BGPSEC_VALID) FAIL("C11:valid-on-unsupported", "unsupported suite and AFI gave VALID" + ctx); }
		else if (!all_ski) { if (got != RTR_BGPSEC_ROUTER_KEY_NOT_FOUND) FAIL("C11:missing-key-code", "a hop without any key for its SKI gave " + std::to_string(got) + " instead of ROUTER_KEY_NOT_FOUND" + ctx); }
		else if (strict) { if (got != RTR_BGPSEC_VALID) FAIL("C11:valid-path-rejected", "every hop verifies under a key of its AS (independent RFC 8205 digest) but the library says " + std::to_string(got) + ctx); }
		else if (got == RTR_BGPSEC_VALID) {
			if (relaxed) FAIL("C11:key-lookup-ignores-as", "VALID although for some hop the only verifying key is registered under a different AS (keys are selected by SKI only)" + ctx);
			else FAIL("C11:valid-on-bad-signature", "VALID although some hop verifies under no registered key" + ctx);
		}
	} else {
		// ------------------------------------------------ C12: signatures generated by the library, hop by hop
		for (size_t k = 0; k < N && res.ok; k++) {
			struct rtr_bgpsec *b = to_lib(u, k + 1, k);
			Bytes priv = kp[k]->privder;
			priv.resize(121, 0);
			bool last = k + 1 == N;
			int expect_err = 0;
			if (last && c.corrupt == 3) {
				if (c.field % 2 == 0) { size_t cut = (size_t)c.bit % 121; for (size_t i = cut; i < 121; i++) priv[i] = 0; }
				else priv[(c.bit / 8) % 121] ^= (uint8_t)(1u << (c.bit % 8));
				if (priv != Bytes(kp[k]->privder.begin(), kp[k]->privder.end())) expect_err = RTR_BGPSEC_LOAD_PRIV_KEY_ERROR;
				if (info) info->cls.push_back("bad-private-key");
			}
			if (last && c.corrupt == 2) {
				// one Secure_Path segment too many / too few for signing (signing needs path = signatures + 1)
				if ((c.bit & 1) && k >= 1) {
					rtr_bgpsec_free(b);
					b = to_lib(u, k, k);
					if (info) info->cls.push_back("segment-count-mismatch(own-segment-missing)");
				} else {
					struct rtr_secure_path_seg *extra = rtr_bgpsec_new_secure_path_seg(1, 0, 5);
					rtr_bgpsec_append_sec_path_seg(b, extra);
					if (info) info->cls.push_back("segment-count-mismatch(one-segment-too-many)");
				}
				expect_err = RTR_BGPSEC_WRONG_SEGMENT_COUNT;
			}
			bool supported = u.alg == 1 && (u.afi == 1 || u.afi == 2);
			struct rtr_signature_seg *ns = nullptr;
			// odd hops go through the connection manager's public entry point
			int rc = (k & 1) ? rtr_mgr_bgpsec_generate_signature(b, priv.data(), &ns) : rtr_bgpsec_generate_signature(b, priv.data(), &ns);
			std::string ctx = " [signing hop " + std::to_string(k) + " of " + std::to_string(N) + ", afi=" + std::to_string(u.afi) + " nlri_len=" + std::to_string(u.nlri_len) + "]";
			if (u.alg != 1 && (u.afi == 1 || u.afi == 2)) { if (rc != RTR_BGPSEC_UNSUPPORTED_ALGORITHM_SUITE) FAIL("C12:suite-code", "suite " + std::to_string(u.alg) + " gave " + std::to_string(rc) + ctx); }
			else if (u.alg == 1 && !(u.afi == 1 || u.afi == 2)) { if (rc != RTR_BGPSEC_UNSUPPORTED_AFI) FAIL("C12:afi-code", "AFI " + std::to_string(u.afi) + " gave " + std::to_string(rc) + ctx); }
			else if (!supported) { if (rc == RTR_BGPSEC_SUCCESS) FAIL("C12:success-on-unsupported", "signing succeeded with unsupported suite and AFI" + ctx); }
			else if (expect_err == RTR_BGPSEC_WRONG_SEGMENT_COUNT) { if (rc != expect_err) FAIL("C12:segment-count-code", "wrong segment count gave " + std::to_string(rc) + ctx); }
			else if (expect_err == RTR_BGPSEC_LOAD_PRIV_KEY_ERROR) {
				// a flipped bit can leave a loadable (different) key only if OpenSSL's own consistency check passes: then signing
				// "succeeds" with a key that is not ours; the property only demands the error code for unloadable keys
				if (rc != RTR_BGPSEC_LOAD_PRIV_KEY_ERROR && rc != RTR_BGPSEC_SUCCESS) FAIL("C12:bad-key-code", "damaged private key gave " + std::to_string(rc) + ctx);
				if (rc == RTR_BGPSEC_SUCCESS) {
					const unsigned char *pp = priv.data();
					EC_KEY *chk = d2i_ECPrivateKey(nullptr, &pp, 121);
					bool loadable = chk && EC_KEY_check_key(chk) == 1;
					if (chk) EC_KEY_free(chk);
					if (!loadable) FAIL("C12:bad-key-accepted", "signing succeeded with a private key OpenSSL cannot load" + ctx);
				}
			} else if (rc != RTR_BGPSEC_SUCCESS || !ns) FAIL("C12:signing-failed", "generate_signature returned " + std::to_string(rc) + ctx);
			else {
				Bytes sig(ns->signature, ns->signature + ns->sig_len);
				const unsigned char *sp = sig.data();
				ECDSA_SIG *es = d2i_ECDSA_SIG(nullptr, &sp, (long)sig.size());
				if (!es || sp != sig.data() + sig.size() || sig.size() > 72) FAIL("C12:signature-not-der", "generated signature (" + std::to_string(sig.size()) + " bytes) is not one well-formed DER ECDSA signature" + ctx);
				if (es) ECDSA_SIG_free(es);
				u.hops[k].sig = sig;
				if (res.ok && !evp_verify_spki(kp[k]->spki.data(), kp[k]->spki.size(), digest_input(u, k), sig))
					FAIL("C12:signature-rejected-by-independent-implementation", "the generated signature does not verify over the RFC 8205 section 4.2 octets built independently" + ctx);
			}
			if (ns) rtr_bgpsec_free_signatures(ns);
			rtr_bgpsec_free(b);
			if (!supported || expect_err) break;
			if (k + 1 == N && res.ok) {
				struct rtr_bgpsec *full = to_lib(u, N, N);
				int v = rtr_bgpsec_validate_as_path(full, tab);
				rtr_bgpsec_free(full);
				if (info) info->cls.push_back("full-path-built-from-generated-signatures");
				if (v != RTR_BGPSEC_VALID) FAIL("C12:generated-path-not-valid", "a path built hop by hop from generated signatures validates as " + std::to_string(v) + ctx);
			}
		}
	}
	shim_spki_table_delete(tab);
	return res;
}

int main(int argc, char **argv)
{
	vf::Args args = vf::parse_args(argc, argv);
	if (args.prop.empty()) args.prop = "C11";
	for (int i = 0; i < 6; i++) g_keys.push_back(gen_key(i % 3));
	int mode = args.prop == "C12" ? 1 : 0;
	if (!args.replay.empty())
		return vf::replay_main(args, [&](const std::string &body) { return run_case(parse_case(body), nullptr); });
	vf::Stats st(args);
	double t0 = vf::now_s();
	int max_hops = args.tier == "thorough" ? 40 : 8;
	rc::check("bgpsec (" + args.prop + ")", [&]() {
		Case c = *genCase(mode, max_hops);
		std::string text = case_text(c);
		st.current_case(text);
		Info info;
		vf::Result r = run_case(c, &info);
		st.evaluations++;
		for (auto &x : info.cls) st.cls(x);
		if (info.nontrivial) { st.nontriv(vf::fnv1a(text)); st.sample(text, 5); }
		if (!r.ok && st.on_failure(text, r)) RC_FAIL(r.sig + ": " + r.what);
	});
	st.write(vf::now_s() - t0);
	return 0;
}
