// Driver "mgr": C15 — cache-group failover honours the preference order.
// Single-threaded: rtr_start / rtr_stop are replaced at link time (--wrap) by mocks that record the call
// and reproduce the externally visible effects of the real ones; socket state changes are injected with
// the real rtr_change_socket_state(), so the real rtr_mgr_cb runs.  DESIGN.md §7 C15.
#include "common.hpp"
#include "../shim/rtr_shim.h"
#include <rapidcheck.h>
extern "C" {
#include "rtrlib/rtr_mgr.h"
int __wrap_rtr_start(struct rtr_socket *s);
void __wrap_rtr_stop(struct rtr_socket *s);
}

template <typename T> static rc::Gen<T> rng(T lo, T hi) { return rc::gen::resize(rc::kNominalSize, rc::gen::inRange<T>(lo, (T)(hi + 1))); }

static const int PREFS[] = {1, 2, 3, 5, 9, 200};
struct GroupSpec { int pref = 0, nsock = 1; };
struct Op { char kind = 'E'; int g = 0, s = 0, to = 0, arg = 0; }; // E socket event, A add group, R remove group, T mgr_stop
struct Case { std::vector<GroupSpec> groups; std::vector<Op> ops; };

static std::string case_text(const Case &c)
{
	std::ostringstream o;
	for (auto &g : c.groups) o << "group " << g.pref << " " << g.nsock << "\n";
	for (auto &p : c.ops) o << p.kind << " " << p.g << " " << p.s << " " << p.to << " " << p.arg << "\n";
	return o.str();
}
static Case parse_case(const std::string &t)
{
	Case c;
	std::istringstream in(t);
	std::string l;
	while (std::getline(in, l)) {
		std::istringstream ls(l);
		std::string w;
		ls >> w;
		if (w == "group") { GroupSpec g; ls >> g.pref >> g.nsock; c.groups.push_back(g); }
		else if (w.size() == 1) { Op p; p.kind = w[0]; ls >> p.g >> p.s >> p.to >> p.arg; c.ops.push_back(p); }
	}
	return c;
}
static rc::Gen<Case> genCase()
{
	using namespace rc;
	auto grp = gen::apply([](int p, int n) { GroupSpec g; g.pref = p; g.nsock = n; return g; }, rng<int>(0, 5), gen::weightedElement<int>({{1, 0}, {6, 1}, {5, 2}}));
	auto op = gen::apply([](char k, int g, int s, int to, int arg) { Op p; p.kind = k; p.g = g; p.s = s; p.to = to; p.arg = arg; return p; },
			     gen::weightedElement<char>({{40, 'E'}, {3, 'A'}, {3, 'R'}, {1, 'T'}}), rng<int>(0, 5), rng<int>(0, 1), rng<int>(0, 9), rng<int>(0, 3));
	return gen::apply([](std::vector<GroupSpec> g, std::vector<Op> ops) { Case c; if (g.size() > 3) g.resize(3); c.groups = g; c.ops = ops; return c; },
			  gen::weightedOneOf<std::vector<GroupSpec>>({{1, gen::container<std::vector<GroupSpec>>(0, grp)}, {3, gen::container<std::vector<GroupSpec>>(1, grp)}, {8, gen::container<std::vector<GroupSpec>>(2, grp)}, {8, gen::container<std::vector<GroupSpec>>(3, grp)}}),
			  gen::container<std::vector<Op>>(op));
}

// ------------------------------------------------------------------ harness state
struct Sock {
	struct rtr_socket rs;
	struct tr_socket tr;
	int pref = -1; // group it belongs to
	bool freed = false;
};
static std::vector<Sock *> g_socks;
struct Ev { int kind; int pref; int status; struct rtr_socket *sock; }; // kind 0 status_fp, 1 start, 2 stop
static std::vector<Ev> g_log;
static time_t g_now = 5000;

static Sock *find_sock(const struct rtr_socket *s)
{
	for (auto *k : g_socks) if (&k->rs == s) return k;
	return nullptr;
}
extern "C" int __wrap_rtr_start(struct rtr_socket *s)
{
	Sock *k = find_sock(s);
	g_log.push_back({1, k ? k->pref : -1, 0, s});
	if (s->thread_id) return RTR_ERROR;
	s->thread_id = (pthread_t)1;
	if (s->state != RTR_SHUTDOWN) s->state = RTR_CONNECTING; // rtr_fsm_start, first thing (no callback)
	return RTR_SUCCESS;
}
extern "C" void __wrap_rtr_stop(struct rtr_socket *s)
{
	Sock *k = find_sock(s);
	g_log.push_back({2, k ? k->pref : -1, 0, s});
	rtr_change_socket_state(s, RTR_SHUTDOWN);
	if (s->thread_id != 0) {
		s->request_session_id = true;
		s->serial_number = 0;
		s->last_update = 0;
		s->thread_id = 0;
		s->state = RTR_CLOSED;
	}
}
static void status_cb(const struct rtr_mgr_group *g, enum rtr_mgr_status st, const struct rtr_socket *s, void *)
{
	g_log.push_back({0, g->preference, (int)st, (struct rtr_socket *)s});
}
static void tr_free_mock(struct tr_socket *t) { for (auto *k : g_socks) if (&k->tr == t) k->freed = true; }

struct GView { int pref; int status; std::vector<struct rtr_socket *> socks; };
static void view_cb(const struct rtr_mgr_group *g, void *d)
{
	GView v;
	v.pref = g->preference;
	v.status = g->status;
	for (unsigned i = 0; i < g->sockets_len; i++) v.socks.push_back(g->sockets[i]);
	((std::vector<GView> *)d)->push_back(v);
}
static std::vector<GView> view(struct rtr_mgr_config *cfg)
{
	std::vector<GView> v;
	rtr_mgr_for_each_group(cfg, view_cb, &v);
	return v;
}

struct Info { bool nontrivial = false; std::vector<std::string> cls; };

static Sock *new_sock(int pref)
{
	Sock *k = new Sock();
	memset(&k->rs, 0, sizeof k->rs);
	memset(&k->tr, 0, sizeof k->tr);
	k->tr.free_fp = tr_free_mock;
	k->rs.tr_socket = &k->tr;
	k->pref = pref;
	g_socks.push_back(k);
	return k;
}

static vf::Result run_case(const Case &c, Info *info)
{
	using vf::Result;
	for (auto *k : g_socks) delete k;
	g_socks.clear();
	g_log.clear();
	Result res;
	auto FAIL = [&](const std::string &sig, const std::string &what) { if (res.ok) res = Result::fail(sig, what); };

	// ---- init
	std::vector<struct rtr_mgr_group> groups(c.groups.size());
	std::vector<std::vector<struct rtr_socket *>> ptrs(c.groups.size());
	bool dup = false, empty_group = false;
	std::set<int> seen;
	for (size_t i = 0; i < c.groups.size(); i++) {
		int pref = PREFS[(unsigned)c.groups[i].pref % 6];
		if (!seen.insert(pref).second) dup = true;
		if (c.groups[i].nsock <= 0) empty_group = true;
		for (int s = 0; s < c.groups[i].nsock; s++) ptrs[i].push_back(&new_sock(pref)->rs);
		groups[i].sockets = ptrs[i].data();
		groups[i].sockets_len = (unsigned)ptrs[i].size();
		groups[i].preference = (uint8_t)pref;
		groups[i].status = RTR_MGR_CLOSED;
	}
	struct rtr_mgr_config *cfg = nullptr;
	int rc = rtr_mgr_init(&cfg, groups.data(), (unsigned)groups.size(), 3600, 7200, 600, nullptr, nullptr, status_cb, nullptr);
	bool should_fail = groups.empty() || dup || empty_group;
	if (info) info->cls.push_back(should_fail ? "init-invalid-config" : "init-valid-config");
	if (should_fail) {
		if (rc == RTR_SUCCESS) FAIL("C15:init-accepts-invalid", std::string("rtr_mgr_init accepted ") + (groups.empty() ? "an empty group list" : dup ? "duplicate preferences" : "a group without sockets"));
		if (rc == RTR_SUCCESS && cfg) { /* leak: cannot free safely */ }
		return res;
	}
	if (rc != RTR_SUCCESS || !cfg) { FAIL("C15:init-rejects-valid", "rtr_mgr_init returned " + std::to_string(rc) + " for a valid configuration"); return res; }

	auto check_order = [&](const char *when) {
		auto v = view(cfg);
		for (size_t i = 1; i < v.size(); i++)
			if (v[i - 1].pref >= v[i].pref) FAIL("C15:order", std::string("groups are not presented in ascending preference order after ") + when);
		if (!v.empty() && rtr_mgr_get_first_group(cfg)->preference != v[0].pref) FAIL("C15:first-group", "rtr_mgr_get_first_group is not the head of the list");
		if (!v.empty()) { int mn = 999; for (auto &g : v) mn = std::min(mn, g.pref); if (rtr_mgr_get_first_group(cfg)->preference != mn) FAIL("C15:first-group", std::string("rtr_mgr_get_first_group is not the most preferred group after ") + when); }
	};
	check_order("init");
	rtr_mgr_start(cfg);
	bool failover_seen = false, error_start_seen = false;

	// socket FSM graph (successor states the real state machine can produce)
	auto successors = [](int st) -> std::vector<int> {
		switch (st) {
		case RTR_CONNECTING: return {RTR_RESET, RTR_SYNC, RTR_ERROR_TRANSPORT, RTR_ERROR_FATAL};
		case RTR_RESET: return {RTR_SYNC, RTR_ERROR_TRANSPORT};
		case RTR_SYNC: return {RTR_ESTABLISHED, RTR_ESTABLISHED, RTR_ERROR_FATAL, RTR_ERROR_TRANSPORT, RTR_ERROR_NO_DATA_AVAIL, RTR_ERROR_NO_INCR_UPDATE_AVAIL, RTR_FAST_RECONNECT};
		case RTR_ESTABLISHED: return {RTR_SYNC, RTR_ERROR_FATAL, RTR_ERROR_TRANSPORT};
		case RTR_ERROR_TRANSPORT: case RTR_ERROR_FATAL: case RTR_FAST_RECONNECT: return {RTR_CONNECTING};
		case RTR_ERROR_NO_DATA_AVAIL: case RTR_ERROR_NO_INCR_UPDATE_AVAIL: return {RTR_RESET};
		default: return {};
		}
	};

	for (size_t oi = 0; oi < c.ops.size() && res.ok; oi++) {
		const Op &p = c.ops[oi];
		auto before = view(cfg);
		std::map<int, int> st_before;
		bool est_before = false;
		for (auto &g : before) { st_before[g.pref] = g.status; if (g.status == RTR_MGR_ESTABLISHED) est_before = true; }
		g_log.clear();
		std::string tag = "op#" + std::to_string(oi) + " " + p.kind;
		int cause_pref = -1; // preference of the group whose socket caused the event (E ops)
		if (p.kind == 'E') {
			// pick the k-th running socket
			std::vector<struct rtr_socket *> running;
			for (auto &g : before) for (auto *s : g.socks) if (s->thread_id && s->state != RTR_SHUTDOWN && s->state != RTR_CLOSED) running.push_back(s);
			if (running.empty()) continue;
			struct rtr_socket *s = running[(unsigned)(p.g * 2 + p.s) % running.size()];
			auto succ = successors(s->state);
			if (succ.empty()) continue;
			int to = succ[(unsigned)p.to % succ.size()];
			cause_pref = find_sock(s)->pref;
			g_now += 10;
			if (to == RTR_ESTABLISHED) s->last_update = g_now;			      // rtr_sync sets the timestamp before the state change
			if (to == RTR_CONNECTING && p.arg == 3) s->last_update = 0;		      // expiry purge on reconnect
			if (info) info->cls.push_back(std::string("event->") + rtr_state_to_str((enum rtr_socket_state)to));
			rtr_change_socket_state(s, (enum rtr_socket_state)to);
		} else if (p.kind == 'A') {
			int pref = PREFS[(unsigned)p.g % 6];
			bool used = st_before.count(pref);
			int ns = 1 + (p.s & 1);
			std::vector<struct rtr_socket *> *pv = new std::vector<struct rtr_socket *>();
			for (int k = 0; k < ns; k++) pv->push_back(&new_sock(pref)->rs);
			struct rtr_mgr_group g;
			g.sockets = pv->data();
			g.sockets_len = ns;
			g.preference = (uint8_t)pref;
			g.status = RTR_MGR_CLOSED;
			int r = rtr_mgr_add_group(cfg, &g);
			if (info) info->cls.push_back(used ? "add-group-duplicate-preference" : "add-group");
			if (used && r == RTR_SUCCESS) FAIL("C15:add-duplicate-accepted", "rtr_mgr_add_group accepted preference " + std::to_string(pref) + " which is in use");
			if (!used && r != RTR_SUCCESS) FAIL("C15:add-rejected", "rtr_mgr_add_group rejected unused preference " + std::to_string(pref));
			if (used) {
				auto after = view(cfg);
				if (after.size() != before.size()) FAIL("C15:add-duplicate-changed-config", "a rejected rtr_mgr_add_group changed the group list");
				for (auto *k : g_socks) if (k->pref == pref && std::find(pv->begin(), pv->end(), &k->rs) != pv->end()) k->pref = -2; // not part of the config
			}
		} else if (p.kind == 'R') {
			int pref = PREFS[(unsigned)p.g % 6];
			bool exists = st_before.count(pref);
			int r = rtr_mgr_remove_group(cfg, pref);
			if (info) info->cls.push_back(before.size() == 1 ? "remove-last-group" : exists ? "remove-group" : "remove-unknown-group");
			if (before.size() == 1 && r == RTR_SUCCESS) FAIL("C15:last-group-removed", "the last remaining group was removed");
			if (before.size() > 1 && exists && r != RTR_SUCCESS) FAIL("C15:remove-rejected", "removing existing group " + std::to_string(pref) + " failed");
			if (before.size() > 1 && !exists && r == RTR_SUCCESS) FAIL("C15:remove-unknown-accepted", "removing a non-existent group succeeded");
		} else if (p.kind == 'T') {
			rtr_mgr_stop(cfg);
			if (info) info->cls.push_back("mgr-stop");
		}
		if (!res.ok) break;
		check_order(tag.c_str());
		auto after = view(cfg);
		std::map<int, int> st_after;
		for (auto &g : after) st_after[g.pref] = g.status;
		// status reports seen during the event
		std::map<int, std::vector<int>> reported;
		std::set<int> started, stopped_prefs;
		std::set<struct rtr_socket *> started_socks;
		for (auto &e : g_log) {
			if (e.kind == 0) reported[e.pref].push_back(e.status);
			if (e.kind == 1) { started.insert(e.pref); started_socks.insert(e.sock); }
			if (e.kind == 2) stopped_prefs.insert(e.pref);
		}
		if (p.kind != 'E') continue;
		// --- a group is reported ESTABLISHED only when every socket holds synchronised data
		for (auto &g : after) {
			bool became = g.status == RTR_MGR_ESTABLISHED && st_before.count(g.pref) && st_before[g.pref] != RTR_MGR_ESTABLISHED;
			if (!became) continue;
			for (auto *s : g.socks)
				if (s->last_update == 0 || s->state == RTR_SHUTDOWN || s->state == RTR_CLOSED)
					FAIL("C15:established-without-data", "group " + std::to_string(g.pref) + " became ESTABLISHED although one of its sockets holds no synchronised data (" + tag + ")");
			// every less preferred group is shut down and reported CLOSED
			for (auto &o : after) {
				if (o.pref <= g.pref) continue;
				if (o.status != RTR_MGR_CLOSED) FAIL("C15:less-preferred-not-closed", "group " + std::to_string(g.pref) + " became ESTABLISHED but less preferred group " + std::to_string(o.pref) + " has status " + std::to_string(o.status) + " (" + tag + ")");
				for (auto *s : o.socks) if (s->thread_id != 0) FAIL("C15:less-preferred-still-running", "less preferred group " + std::to_string(o.pref) + " still has a running socket after group " + std::to_string(g.pref) + " became ESTABLISHED");
				if (st_before[o.pref] != RTR_MGR_CLOSED) {
					auto &r = reported[o.pref];
					if (std::find(r.begin(), r.end(), (int)RTR_MGR_CLOSED) == r.end()) FAIL("C15:closed-not-reported", "less preferred group " + std::to_string(o.pref) + " was shut down without being reported CLOSED");
					failover_seen = true;
				}
			}
		}
		// --- no group is ever shut down on behalf of a less preferred one
		for (int sp : stopped_prefs)
			if (sp >= 0 && sp <= cause_pref) FAIL("C15:stopped-on-behalf-of-less-preferred", "an event of a socket of group " + std::to_string(cause_pref) + " stopped sockets of group " + std::to_string(sp) + " (" + tag + ")");
		// --- a group enters ERROR while no group is ESTABLISHED: the most preferred closed group is started
		{
			bool entered_error = st_after.count(cause_pref) && st_after[cause_pref] == RTR_MGR_ERROR && st_before[cause_pref] != RTR_MGR_ERROR;
			bool est_after = false;
			for (auto &g : after) if (g.status == RTR_MGR_ESTABLISHED) est_after = true;
			if (entered_error && !est_before && !est_after) {
				int best = -1;
				for (auto &g : before) if (g.pref != cause_pref && g.status == RTR_MGR_CLOSED && (best < 0 || g.pref < best)) best = g.pref;
				if (best >= 0) {
					for (auto &g : before)
						if (g.pref == best && started.count(best))
							for (auto *sk : g.socks)
								if (!started_socks.count(sk)) FAIL("C15:group-only-partly-started", "group " + std::to_string(best) + " was started on failover, but not all of its " + std::to_string(g.socks.size()) + " sockets were (" + tag + ")");
					if (!started.count(best)) FAIL("C15:no-failover-start", "group " + std::to_string(cause_pref) + " entered ERROR with no group ESTABLISHED, but the most preferred closed group " + std::to_string(best) + " was not started (" + tag + ")");
					error_start_seen = true;
				}
				for (int sp : started) if (sp != best) FAIL("C15:wrong-group-started", "group " + std::to_string(sp) + " was started although the most preferred closed group is " + std::to_string(best) + " (" + tag + ")");
			}
			if (!entered_error || est_before) for (int sp : started) { (void)sp; }
		}
	}
	if (info) {
		info->nontrivial = failover_seen || error_start_seen;
		if (failover_seen) info->cls.push_back("history-with-failover(less-preferred-closed)");
		if (error_start_seen) info->cls.push_back("history-with-error-triggered-start");
	}
	rtr_mgr_stop(cfg);
	rtr_mgr_free(cfg);
	return res;
}


// The library's debug printing (on because NDEBUG is off) is replaced at link time: the arguments are still formatted (so that the sanitizers
// see them) but nothing is written — thousands of cases would otherwise produce hundreds of megabytes of output.
#include <cstdarg>
#include <cstdio>
extern "C" void __wrap_lrtr_dbg(const char *frmt, ...)
{
	char buf[2048];
	va_list ap;
	va_start(ap, frmt);
	vsnprintf(buf, sizeof buf, frmt, ap);
	va_end(ap);
}

int main(int argc, char **argv)
{
	vf::Args args = vf::parse_args(argc, argv);
	if (args.prop.empty()) args.prop = "C15";
	if (!args.replay.empty()) return vf::replay_main(args, [&](const std::string &body) { return run_case(parse_case(body), nullptr); });
	vf::Stats st(args);
	double t0 = vf::now_s();
	rc::check("rtr_mgr failover", [&]() {
		Case c = *genCase();
		std::string text = case_text(c);
		st.current_case(text);
		Info info;
		vf::Result r = run_case(c, &info);
		st.evaluations++;
		for (auto &x : info.cls) st.cls(x);
		if (info.nontrivial) { st.nontriv(vf::fnv1a(text)); st.sample(text.size() > 700 ? text.substr(0, 700) + "..." : text, 5); }
		if (!r.ok && st.on_failure(text, r)) RC_FAIL(r.sig + ": " + r.what);
	});
	st.write(vf::now_s() - t0);
	return 0;
}
