// Driver "intervals": C17 part (a) — rtr_init / rtr_mgr_init reject refresh, retry or expire intervals outside
// the RFC 8210 ranges and accept everything inside.  The boundary grid is enumerated exhaustively,
// random triples on top.
#include "common.hpp"
#include "../shim/rtr_shim.h"
#include <rapidcheck.h>
extern "C" {
#include "rtrlib/rtr_mgr.h"
}
static void tr_free_mock(struct tr_socket *) {}

static vf::Result run_case(uint32_t refresh, uint32_t expire, uint32_t retry, int mode)
{
	uint32_t b[6];
	shim_rtr_interval_bounds(b); // exp_min exp_max ref_min ref_max ret_min ret_max
	bool valid = expire >= b[0] && expire <= b[1] && refresh >= b[2] && refresh <= b[3] && retry >= b[4] && retry <= b[5];
	struct pfx_table pt;
	pfx_table_init(&pt, nullptr);
	struct spki_table *st = shim_spki_table_new(nullptr);
	struct rtr_socket s;
	struct tr_socket tr;
	memset(&s, 0, sizeof s);
	memset(&tr, 0, sizeof tr);
	tr.free_fp = tr_free_mock;
	int rc = rtr_init(&s, &tr, &pt, st, refresh, expire, retry, (enum rtr_interval_mode)(mode % 4), nullptr, nullptr, nullptr);
	std::string t = "(refresh=" + std::to_string(refresh) + ", expire=" + std::to_string(expire) + ", retry=" + std::to_string(retry) + ")";
	vf::Result res;
	if (valid && rc != RTR_SUCCESS) res = vf::Result::fail("C17:init-rejects-valid", "rtr_init" + t + " returned " + std::to_string(rc));
	if (!valid && rc == RTR_SUCCESS) res = vf::Result::fail("C17:init-accepts-out-of-range", "rtr_init" + t + " accepted an interval outside the RFC 8210 range");
	if (valid && rc == RTR_SUCCESS && (s.refresh_interval != refresh || s.expire_interval != expire || s.retry_interval != retry))
		res = vf::Result::fail("C17:init-stores-other-values", "rtr_init" + t + " stored (" + std::to_string(s.refresh_interval) + "," + std::to_string(s.expire_interval) + "," + std::to_string(s.retry_interval) + ")");
	pfx_table_free(&pt);
	shim_spki_table_delete(st);
	if (!res.ok) return res;
	// the manager passes the values through
	struct rtr_socket ms;
	memset(&ms, 0, sizeof ms);
	ms.tr_socket = &tr;
	struct rtr_socket *sp[1] = {&ms};
	struct rtr_mgr_group g;
	g.sockets = sp;
	g.sockets_len = 1;
	g.preference = 1;
	g.status = RTR_MGR_CLOSED;
	struct rtr_mgr_config *cfg = nullptr;
	int mrc = rtr_mgr_init(&cfg, &g, 1, refresh, expire, retry, nullptr, nullptr, nullptr, nullptr);
	if (valid && (mrc != RTR_SUCCESS || !cfg)) res = vf::Result::fail("C17:mgr-init-rejects-valid", "rtr_mgr_init" + t + " returned " + std::to_string(mrc));
	if (!valid && mrc == RTR_SUCCESS) res = vf::Result::fail("C17:mgr-init-accepts-out-of-range", "rtr_mgr_init" + t + " accepted an interval outside the RFC 8210 range");
	if (!valid && cfg) res = vf::Result::fail("C17:mgr-init-config-on-error", "rtr_mgr_init" + t + " failed but returned a configuration");
	if (cfg) rtr_mgr_free(cfg);
	return res;
}


// The library's debug printing (on because NDEBUG is off) is replaced at link time: the arguments are still formatted (so that the sanitizers
// see them) but nothing is written — thousands of cases would otherwise produce hundreds of megabytes of output.
#include <cstdarg>
#include <cstdio>
extern "C" void __wrap_lrtr_dbg(const char *frmt, ...)
{
	char buf[2048];
	va_list ap;
	va_start(ap, frmt);
	vsnprintf(buf, sizeof buf, frmt, ap);
	va_end(ap);
}

int main(int argc, char **argv)
{
	vf::Args args = vf::parse_args(argc, argv);
	if (args.prop.empty()) args.prop = "C17";
	auto run_text = [&](const std::string &body) {
		std::istringstream in(body);
		uint32_t a = 0, b = 0, c = 0;
		int m = 0;
		in >> a >> b >> c >> m;
		return run_case(a, b, c, m);
	};
	if (!args.replay.empty()) return vf::replay_main(args, run_text);
	vf::Stats st(args);
	double t0 = vf::now_s();
	uint32_t bd[6];
	shim_rtr_interval_bounds(bd);
	auto grid = [&](uint32_t lo, uint32_t hi) { return std::vector<uint32_t>{0, lo - 1, lo, lo + 1, (lo + hi) / 2, hi - 1, hi, hi + 1, 0xffffffffu}; };
	bool ok = true;
	auto one = [&](uint32_t r, uint32_t e, uint32_t t, int m, const char *cls) {
		std::string text = std::to_string(r) + " " + std::to_string(e) + " " + std::to_string(t) + " " + std::to_string(m) + "\n";
		st.current_case(text);
		vf::Result res = run_case(r, e, t, m);
		st.evaluations++;
		st.cls(cls);
		st.nontriv(vf::fnv1a(text));
		if (st.samples.size() < 6 && st.evaluations % 97 == 1) st.samples.push_back("rtr_init/rtr_mgr_init refresh=" + std::to_string(r) + " expire=" + std::to_string(e) + " retry=" + std::to_string(t));
		if (!res.ok && st.on_failure(text, res)) ok = false;
	};
	for (uint32_t r : grid(bd[2], bd[3])) for (uint32_t e : grid(bd[0], bd[1])) for (uint32_t t : grid(bd[4], bd[5])) if (ok) one(r, e, t, (int)((r + e + t) % 4), "boundary-grid");
	if (ok)
		rc::check("random interval triples", [&]() {
			uint32_t r = *rc::gen::arbitrary<uint32_t>(), e = *rc::gen::arbitrary<uint32_t>(), t = *rc::gen::arbitrary<uint32_t>();
			int sel = *rc::gen::inRange(0, 8);
			if (sel & 1) r = r % 90000;
			if (sel & 2) e = e % 180000;
			if (sel & 4) t = t % 8000;
			std::string text = std::to_string(r) + " " + std::to_string(e) + " " + std::to_string(t) + " 0\n";
			st.current_case(text);
			vf::Result res = run_case(r, e, t, 0);
			st.evaluations++;
			st.cls("random-triple");
			st.nontriv(vf::fnv1a(text));
			if (!res.ok && st.on_failure(text, res)) RC_FAIL(res.sig + ": " + res.what);
		});
	st.write(vf::now_s() - t0);
	return 0;
}
