// Shared infrastructure of all rapidcheck / custom drivers (see DESIGN.md §3).
//
// A driver is one process:  driver --prop Cnn --out result.json [--known sig,sig] [--replay file]
//                                  [--cases N] [--tier quick|thorough]
//  * generation is rapidcheck's (RC_PARAMS is set by tools/vr.py from VERIF_SEED), no other RNG;
//  * every executed case is written to <out>.current first, so a sanitizer abort leaves a replay;
//  * a semantic failure is a value {sig, what}; known signatures (known_findings.json) are counted
//    and excluded so the search goes on; anything else makes the rapidcheck property fail and shrink;
//    the last failing (= smallest) case is what ends up in the result file;
//  * the result file carries the measured coverage counters that become evidence/Cnn.json.
#pragma once
#include <cstdint>
#include <cstdio>
#include <cstdlib>
#include <cstring>
#include <fstream>
#include <functional>
#include <map>
#include <set>
#include <sstream>
#include <string>
#include <unordered_set>
#include <vector>
#include <fcntl.h>
#include <unistd.h>

namespace vf {

inline uint64_t fnv1a(const void *p, size_t n, uint64_t h = 1469598103934665603ULL)
{
	const unsigned char *c = (const unsigned char *)p;
	for (size_t i = 0; i < n; i++) {
		h ^= c[i];
		h *= 1099511628211ULL;
	}
	return h;
}
inline uint64_t fnv1a(const std::string &s, uint64_t h = 1469598103934665603ULL)
{
	return fnv1a(s.data(), s.size(), h);
}

inline std::string jesc(const std::string &s)
{
	std::string o;
	for (unsigned char c : s) {
		switch (c) {
		case '"': o += "\\\""; break;
		case '\\': o += "\\\\"; break;
		case '\n': o += "\\n"; break;
		case '\t': o += "\\t"; break;
		case '\r': o += "\\r"; break;
		default:
			if (c < 0x20 || c >= 0x7f) {
				char b[8];
				snprintf(b, sizeof b, "\\u%04x", c);
				o += b;
			} else
				o += (char)c;
		}
	}
	return o;
}

struct Result {
	bool ok = true;
	std::string sig;  // classifier name, e.g. "C10:src-remove-no-notify"; empty = unclassified
	std::string what; // human-readable
	static Result pass() { return Result(); }
	static Result fail(std::string sig, std::string what)
	{
		Result r;
		r.ok = false;
		r.sig = std::move(sig);
		r.what = std::move(what);
		return r;
	}
};

struct Args {
	std::string out = "result.json", replay, prop, tier = "quick";
	std::set<std::string> known;
	long cases = 0; // 0 = driver default
	std::map<std::string, std::string> kv;
	bool has(const std::string &k) const { return kv.count(k) != 0; }
	long num(const std::string &k, long d) const
	{
		auto it = kv.find(k);
		return it == kv.end() ? d : atol(it->second.c_str());
	}
};

inline Args parse_args(int argc, char **argv)
{
	Args a;
	for (int i = 1; i < argc; i++) {
		std::string k = argv[i];
		std::string v = (i + 1 < argc) ? argv[i + 1] : "";
		if (k == "--out") { a.out = v; i++; }
		else if (k == "--replay") { a.replay = v; i++; }
		else if (k == "--prop") { a.prop = v; i++; }
		else if (k == "--tier") { a.tier = v; i++; }
		else if (k == "--cases") { a.cases = atol(v.c_str()); i++; }
		else if (k == "--known") {
			std::stringstream ss(v);
			std::string t;
			while (std::getline(ss, t, ','))
				if (!t.empty()) a.known.insert(t);
			i++;
		} else if (k.rfind("--", 0) == 0) { a.kv[k.substr(2)] = v; i++; }
	}
	return a;
}

inline std::string read_file(const std::string &p)
{
	std::ifstream f(p, std::ios::binary);
	std::stringstream ss;
	ss << f.rdbuf();
	return ss.str();
}

// strip '#' comment lines of a replay file
inline std::string replay_body(const std::string &text)
{
	std::stringstream in(text), out;
	std::string l;
	while (std::getline(in, l))
		if (l.empty() || l[0] != '#') out << l << "\n";
	return out.str();
}

struct Stats {
	Args args;
	uint64_t evaluations = 0;
	std::unordered_set<uint64_t> nontrivial;
	std::map<std::string, uint64_t> classes;
	std::vector<std::string> samples;
	std::map<std::string, uint64_t> excluded_known;
	std::map<std::string, std::string> excluded_example;
	uint64_t inconclusive = 0;
	std::string last_fail_case, last_fail_sig, last_fail_what;
	bool failed = false;
	std::map<std::string, uint64_t> extra; // free-form integer counters for evidence
	int cur_fd = -1;

	explicit Stats(const Args &a) : args(a)
	{
		std::string p = a.out + ".current";
		cur_fd = open(p.c_str(), O_CREAT | O_WRONLY | O_TRUNC, 0644);
	}
	// Call before executing a case: the text lands on disk (page cache) even if we abort.
	void current_case(const std::string &text)
	{
		if (cur_fd < 0) return;
		if (ftruncate(cur_fd, 0) != 0) return;
		(void)!pwrite(cur_fd, text.data(), text.size(), 0);
	}
	void cls(const std::string &c, uint64_t n = 1) { classes[c] += n; }
	// distinct non-trivial cases are counted by hash of their canonical text
	void nontriv(uint64_t h) { nontrivial.insert(h); }
	void sample(const std::string &text, size_t max = 5)
	{
		// keep the first, then progressively later ones (sizes grow during a rapidcheck run)
		if (samples.size() < max) samples.push_back(text);
		else if (evaluations % 97 == 0) samples[(evaluations / 97) % max] = text;
	}
	bool is_known(const std::string &sig) const { return !sig.empty() && args.known.count(sig); }
	// returns true if the failure is to be reported (i.e. not a known finding)
	bool on_failure(const std::string &case_text, const Result &r)
	{
		if (is_known(r.sig)) {
			excluded_known[r.sig]++;
			if (!excluded_example.count(r.sig)) excluded_example[r.sig] = case_text + "\n-> " + r.what;
			return false;
		}
		failed = true;
		last_fail_case = case_text;
		last_fail_sig = r.sig;
		last_fail_what = r.what;
		return true;
	}
	void write(double wall_s, bool replay_mode = false) const
	{
		std::ofstream f(args.out);
		f << "{\n";
		f << "\"prop\":\"" << jesc(args.prop) << "\",\n";
		f << "\"evaluations\":" << evaluations << ",\n";
		f << "\"inconclusive\":" << inconclusive << ",\n";
		f << "\"wall_s\":" << wall_s << ",\n";
		// at most 200 000 hashes per process are handed to the runner (which unites them across processes); what lies beyond is
		// counted per process (cases of different processes come from different seeds and practically never coincide)
		const size_t kMaxHashes = 200000;
		f << "\"nontrivial_overflow\":" << (nontrivial.size() > kMaxHashes ? nontrivial.size() - kMaxHashes : 0) << ",\n";
		f << "\"nontrivial_hashes\":[";
		bool first = true;
		size_t written = 0;
		for (auto h : nontrivial) {
			if (written++ >= kMaxHashes) break;
			if (!first) f << ",";
			first = false;
			f << "\"" << std::hex << h << std::dec << "\"";
		}
		f << "],\n\"classes\":{";
		first = true;
		for (auto &kv : classes) {
			if (!first) f << ",";
			first = false;
			f << "\"" << jesc(kv.first) << "\":" << kv.second;
		}
		f << "},\n\"extra\":{";
		first = true;
		for (auto &kv : extra) {
			if (!first) f << ",";
			first = false;
			f << "\"" << jesc(kv.first) << "\":" << kv.second;
		}
		f << "},\n\"samples\":[";
		first = true;
		for (auto &s : samples) {
			if (!first) f << ",";
			first = false;
			f << "\"" << jesc(s) << "\"";
		}
		f << "],\n\"excluded_known\":{";
		first = true;
		for (auto &kv : excluded_known) {
			if (!first) f << ",";
			first = false;
			f << "\"" << jesc(kv.first) << "\":{\"count\":" << kv.second << ",\"example\":\""
			  << jesc(excluded_example.at(kv.first)) << "\"}";
		}
		f << "},\n\"failures\":[";
		if (failed)
			f << "{\"sig\":\"" << jesc(last_fail_sig) << "\",\"what\":\"" << jesc(last_fail_what)
			  << "\",\"case\":\"" << jesc(last_fail_case) << "\"}";
		f << "]\n}\n";
		f.close();
		(void)replay_mode;
	}
};

inline double now_s()
{
	struct timespec ts;
	clock_gettime(CLOCK_MONOTONIC, &ts);
	return ts.tv_sec + ts.tv_nsec * 1e-9;
}

// Replay entry shared by all drivers: run the case from the file `n` times through the plain
// path (no rapidcheck), print the verdict, exit 1 if it fails.
inline int replay_main(const Args &a, const std::function<Result(const std::string &)> &run_text)
{
	std::string body = replay_body(read_file(a.replay));
	Result r = run_text(body);
	if (r.ok) {
		printf("REPLAY-PASS %s\n", a.replay.c_str());
		return 0;
	}
	bool known = !r.sig.empty() && a.known.count(r.sig);
	printf("REPLAY-FAIL%s sig=%s %s\n", known ? "-KNOWN" : "", r.sig.c_str(), r.what.c_str());
	return known ? 0 : 1;
}

} // namespace vf
