// Driver "conc": C16 — concurrent readers and writers of the tables are linearizable and race-free.
//  --mode det : single-threaded; the rwlock calls are wrapped and, whenever the writer has just released the
//               table's write lock, the whole query battery is evaluated in place: every answer must be the
//               model's answer in the state before or after the operation in progress.  This enumerates every
//               table state a reader can observe between critical sections, reproducibly.
//  --mode thr : real threads (ASan flavour: linearizability oracle with operation counters; TSan flavour: races).
#include "common.hpp"
#include "../model/pfx_model.hpp"
#include "../model/spki_model.hpp"
#include "../shim/rtr_shim.h"
#include <rapidcheck.h>
#include <atomic>
#include <pthread.h>
#include <sched.h>

extern "C" {
int __real_pthread_rwlock_wrlock(pthread_rwlock_t *);
int __real_pthread_rwlock_rdlock(pthread_rwlock_t *);
int __real_pthread_rwlock_unlock(pthread_rwlock_t *);
int __wrap_pthread_rwlock_wrlock(pthread_rwlock_t *);
int __wrap_pthread_rwlock_rdlock(pthread_rwlock_t *);
int __wrap_pthread_rwlock_unlock(pthread_rwlock_t *);
}

// update callbacks are installed on the live tables (as an application would): the code paths that only run with a callback
// are then under the race detector and the linearizability oracle too
static std::atomic<long> g_cb_calls{0};
static void conc_pfx_cb(struct pfx_table *, const struct pfx_record, const bool) { g_cb_calls.fetch_add(1, std::memory_order_relaxed); }
static void conc_spki_cb(struct spki_table *, const struct spki_record, const bool) { g_cb_calls.fetch_add(1, std::memory_order_relaxed); }

template <typename T> static rc::Gen<T> rng(T lo, T hi) { return rc::gen::resize(rc::kNominalSize, rc::gen::inRange<T>(lo, (T)(hi + 1))); }
using pm::Rec;
using sm::Key;

static struct rtr_socket g_socks[3];
static std::string g_prop = "C16";
struct Op { char kind = 'a'; int id = 0, src = 0; }; // a/r pfx add/remove, s pfx src_remove, A/R key add/remove, S key src_remove
struct Case { std::vector<Op> ops; int readers = 4; unsigned yseed = 1; };

static std::string case_text(const Case &c)
{
	std::ostringstream o;
	o << "cfg " << c.readers << " " << c.yseed << "\n";
	for (auto &p : c.ops) o << p.kind << " " << p.id << " " << p.src << "\n";
	return o.str();
}
static Case parse_case(const std::string &t)
{
	Case c;
	std::istringstream in(t);
	std::string l;
	while (std::getline(in, l)) {
		std::istringstream ls(l);
		std::string w;
		ls >> w;
		if (w == "cfg") ls >> c.readers >> c.yseed;
		else if (w.size() == 1) { Op p; p.kind = w[0]; ls >> p.id >> p.src; c.ops.push_back(p); }
	}
	return c;
}
static int g_reload_weight = 3;
static rc::Gen<Case> genCase()
{
	using namespace rc;
	auto op = gen::apply([](char k, int id, int src) { Op p; p.kind = k; p.id = id; p.src = src; return p; },
			     gen::weightedElement<char>({{30, 'a'}, {24, 'r'}, {4, 's'}, {14, 'A'}, {10, 'R'}, {3, 'S'}, {g_reload_weight, 'W'}, {g_reload_weight, 'X'}}), rng<int>(0, 39), rng<int>(0, 2));
	return gen::apply([](std::vector<Op> ops, int r, unsigned y) { Case c; c.ops = ops; c.readers = r; c.yseed = y; return c; }, gen::container<std::vector<Op>>(op), gen::element<int>(2, 4, 8), gen::arbitrary<unsigned>());
}

// record universe: 40 pfx ids (nested IPv4 + IPv6), 40 key ids
static Rec pfx_of(int id, int src)
{
	Rec r;
	id %= 40;
	static const uint8_t b4[4] = {10, 200, 100, 77};
	static const uint8_t b6[16] = {0x20, 1, 0xd, 0xb8, 0xff, 0, 0x80, 1, 0, 0, 0, 0, 0, 0, 0, 9};
	if (id < 26) {
		static const int L[13] = {0, 1, 2, 7, 8, 9, 15, 16, 23, 24, 30, 31, 32};
		r.fam = 0;
		r.len = L[id % 13];
		memcpy(r.a.data(), b4, 4);
		r.a = pm::masked(r.a, 0, r.len);
		r.maxlen = id < 13 ? r.len : 32;
		r.asn = id < 13 ? 100 : 200;
	} else {
		static const int L[7] = {0, 1, 32, 48, 64, 127, 128};
		int j = id - 26;
		r.fam = 1;
		r.len = L[j % 7];
		memcpy(r.a.data(), b6, 16);
		r.a = pm::masked(r.a, 1, r.len);
		r.maxlen = j < 7 ? r.len : 128;
		r.asn = j < 7 ? 100 : 0;
	}
	r.src = src % 3;
	return r;
}
static Key key_of(int id, int src)
{
	Key k;
	id %= 40;
	for (int i = 0; i < 20; i++) k.ski[i] = (uint8_t)(1 + id % 4 + i);
	k.asn = 500 + (id / 4) % 5;
	for (int i = 0; i < 91; i++) k.spki[i] = (uint8_t)(i + id / 20);
	k.src = src % 3;
	return k;
}
static struct lrtr_ip_addr to_addr(int fam, const std::array<uint8_t, 16> &a)
{
	struct lrtr_ip_addr ip;
	memset(&ip, 0, sizeof ip);
	if (fam == 0) { ip.ver = LRTR_IPV4; ip.u.addr4.addr = ((uint32_t)a[0] << 24) | (a[1] << 16) | (a[2] << 8) | a[3]; }
	else { ip.ver = LRTR_IPV6; for (int i = 0; i < 4; i++) ip.u.addr6.addr[i] = ((uint32_t)a[4 * i] << 24) | (a[4 * i + 1] << 16) | (a[4 * i + 2] << 8) | a[4 * i + 3]; }
	return ip;
}
static struct pfx_record to_lib(const Rec &m)
{
	struct pfx_record r;
	memset(&r, 0, sizeof r);
	r.asn = m.asn; r.prefix = to_addr(m.fam, m.a); r.min_len = m.len; r.max_len = m.maxlen; r.socket = &g_socks[m.src];
	return r;
}
static struct spki_record to_lib(const Key &k)
{
	struct spki_record r;
	memset(&r, 0, sizeof r);
	r.asn = k.asn; memcpy(r.ski, k.ski.data(), 20); memcpy(r.spki, k.spki.data(), 91); r.socket = &g_socks[k.src];
	return r;
}

// ---- queries: each yields a canonical string answer
struct Query { int kind; int id; uint32_t asn; int ext; }; // 0 validate_r, 1 enum v4, 2 enum v6, 3 get_all, 4 search_by_ski
static std::vector<Query> g_pool;
static void build_pool()
{
	g_pool.clear();
	for (int id = 0; id < 40; id += 3) for (uint32_t asn : {100u, 200u, 7u}) g_pool.push_back({0, id, asn, id % 2});
	g_pool.push_back({1, 0, 0, 0});
	g_pool.push_back({2, 0, 0, 0});
	for (int id = 0; id < 40; id += 5) g_pool.push_back({3, id, 0, 0});
	for (int id = 0; id < 4; id++) g_pool.push_back({4, id, 0, 0});
}
static std::string rec_str(int fam, const uint8_t *a, int len, int maxlen, uint32_t asn, int src)
{
	char b[96];
	snprintf(b, sizeof b, "%d:%02x%02x%02x%02x%02x%02x%02x%02x..%02x/%d-%d@%u#%d;", fam, a[0], a[1], a[2], a[3], a[4], a[5], a[6], a[7], a[15], len, maxlen, asn, src);
	return b;
}
static std::string rec_str(const Rec &r) { return rec_str(r.fam, r.a.data(), r.len, r.maxlen, r.asn, r.src); }
static int src_index(const struct rtr_socket *s) { for (int i = 0; i < 3; i++) if (s == &g_socks[i]) return i; return -1; }
static Rec from_lib(const struct pfx_record *r)
{
	Rec m;
	m.fam = r->prefix.ver == LRTR_IPV4 ? 0 : 1;
	if (m.fam == 0) { uint32_t x = r->prefix.u.addr4.addr; m.a[0] = x >> 24; m.a[1] = x >> 16; m.a[2] = x >> 8; m.a[3] = x; }
	else for (int i = 0; i < 4; i++) { uint32_t x = r->prefix.u.addr6.addr[i]; m.a[4 * i] = x >> 24; m.a[4 * i + 1] = x >> 16; m.a[4 * i + 2] = x >> 8; m.a[4 * i + 3] = x; }
	m.len = r->min_len; m.maxlen = r->max_len; m.asn = r->asn; m.src = src_index(r->socket);
	return m;
}
static void enum_cb(const struct pfx_record *r, void *d) { ((std::vector<std::string> *)d)->push_back(rec_str(from_lib(r))); }
static std::string join_sorted(std::vector<std::string> v) { std::sort(v.begin(), v.end()); std::string s; for (auto &x : v) s += x; return s; }
static std::string key_str(const Key &k) { char b[64]; snprintf(b, sizeof b, "k%u/%02x/%02x#%d;", k.asn, k.ski[0], k.spki[0], k.src); return b; }

static std::string model_answer(const pm::Table &pt, const sm::Table &st, const Query &q)
{
	switch (q.kind) {
	case 0: {
		Rec r = pfx_of(q.id, 0);
		int len = std::min(pm::width(r.fam), r.len + q.ext);
		pm::State s = pt.validate(q.asn, r.fam, r.a, len);
		std::string out = "st" + std::to_string(s) + "|";
		if (s == pm::INVALID) { std::vector<std::string> v; for (auto &c : pt.covering(r.fam, r.a, len)) v.push_back(rec_str(c)); out += join_sorted(v); }
		return out; // VALID: the reason list depends on the walk; only the state is compared
	}
	case 1: case 2: { std::vector<std::string> v; for (auto &r : pt.s) if (r.fam == q.kind - 1) v.push_back(rec_str(r)); return join_sorted(v); }
	case 3: { Key k = key_of(q.id, 0); std::vector<std::string> v; for (auto &x : st.get_all(k.asn, k.ski)) v.push_back(key_str(x)); return join_sorted(v); }
	default: { Key k = key_of(q.id, 0); std::vector<std::string> v; for (auto &x : st.by_ski(k.ski)) v.push_back(key_str(x)); return join_sorted(v); }
	}
}
static std::string lib_answer(struct pfx_table *pt, struct spki_table *st, const Query &q)
{
	switch (q.kind) {
	case 0: {
		Rec r = pfx_of(q.id, 0);
		int len = std::min(pm::width(r.fam), r.len + q.ext);
		struct lrtr_ip_addr ip = to_addr(r.fam, r.a);
		struct pfx_record *reason = nullptr;
		unsigned int n = 0;
		enum pfxv_state s;
		pfx_table_validate_r(pt, &reason, &n, q.asn, &ip, len, &s);
		std::string out = "st" + std::to_string((int)s) + "|";
		if (s == BGP_PFXV_STATE_INVALID) { std::vector<std::string> v; for (unsigned i = 0; i < n; i++) v.push_back(rec_str(from_lib(&reason[i]))); out += join_sorted(v); }
		free(reason);
		return out;
	}
	case 1: { std::vector<std::string> v; pfx_table_for_each_ipv4_record(pt, enum_cb, &v); return join_sorted(v); }
	case 2: { std::vector<std::string> v; pfx_table_for_each_ipv6_record(pt, enum_cb, &v); return join_sorted(v); }
	case 3: case 4: {
		Key k = key_of(q.id, 0);
		struct spki_record *res = nullptr;
		unsigned int n = 0;
		if (q.kind == 3) spki_table_get_all(st, k.asn, k.ski.data(), &res, &n);
		else spki_table_search_by_ski(st, k.ski.data(), &res, &n);
		std::vector<std::string> v;
		for (unsigned i = 0; i < n; i++) { Key x; x.asn = res[i].asn; memcpy(x.ski.data(), res[i].ski, 20); memcpy(x.spki.data(), res[i].spki, 91); x.src = src_index(res[i].socket); v.push_back(key_str(x)); }
		free(res);
		return join_sorted(v);
	}
	}
	return "";
}

// ---- model trajectory
struct Traj { std::vector<pm::Table> p; std::vector<sm::Table> s; std::vector<int> rc; };
static Traj trajectory(const Case &c)
{
	Traj t;
	pm::Table p;
	sm::Table s;
	t.p.push_back(p);
	t.s.push_back(s);
	for (auto &o : c.ops) {
		int rc = 0;
		switch (o.kind) {
		case 'a': rc = p.add(pfx_of(o.id, o.src)); break;
		case 'r': rc = p.remove(pfx_of(o.id, o.src)); break;
		case 's': p.src_remove(o.src % 3); break;
		case 'A': rc = s.add(key_of(o.id, o.src)); break;
		case 'R': rc = s.remove(key_of(o.id, o.src)); break;
		case 'S': s.src_remove(o.src % 3); break;
		case 'W': p.src_remove(o.src % 3); for (int k : {0, 3, 7, 26}) p.add(pfx_of(o.id + k, o.src)); break; // full reload of one source's prefixes
		case 'X': s.src_remove(o.src % 3); for (int k : {0, 5}) s.add(key_of(o.id + k, o.src)); break;
		}
		t.rc.push_back(rc);
		t.p.push_back(p);
		t.s.push_back(s);
	}
	return t;
}
static int apply_lib(struct pfx_table *pt, struct spki_table *st, const Op &o)
{
	switch (o.kind) {
	case 'a': { struct pfx_record r = to_lib(pfx_of(o.id, o.src)); return pfx_table_add(pt, &r); }
	case 'r': { struct pfx_record r = to_lib(pfx_of(o.id, o.src)); return pfx_table_remove(pt, &r); }
	case 's': return pfx_table_src_remove(pt, &g_socks[o.src % 3]);
	case 'A': { struct spki_record r = to_lib(key_of(o.id, o.src)); return spki_table_add_entry(st, &r); }
	case 'R': { struct spki_record r = to_lib(key_of(o.id, o.src)); return spki_table_remove_entry(st, &r); }
	case 'S': return spki_table_src_remove(st, &g_socks[o.src % 3]);
	case 'W': { // the reload sequence of rtr_sync: build aside, swap, diff, drop the old one
		struct pfx_table sh;
		pfx_table_init(&sh, nullptr);
		pfx_table_copy_except_socket(pt, &sh, &g_socks[o.src % 3]);
		for (int k : {0, 3, 7, 26}) { struct pfx_record r = to_lib(pfx_of(o.id + k, o.src)); pfx_table_add(&sh, &r); }
		pfx_table_swap(pt, &sh);
		pfx_table_notify_diff(pt, &sh, &g_socks[o.src % 3]);
		pfx_table_free_without_notify(&sh);
		return 0;
	}
	default: {
		struct spki_table *sh = shim_spki_table_new(nullptr);
		spki_table_copy_except_socket(st, sh, &g_socks[o.src % 3]);
		for (int k : {0, 5}) { struct spki_record r = to_lib(key_of(o.id + k, o.src)); spki_table_add_entry(sh, &r); }
		spki_table_swap(st, sh);
		spki_table_notify_diff(st, sh, &g_socks[o.src % 3]);
		spki_table_free_without_notify(sh);
		free(sh);
		return 0;
	}
	}
}

// ---- lock wrappers
static pthread_rwlock_t *g_lock_pfx, *g_lock_spki;
static pthread_t g_writer;
static bool g_det = false, g_in_observe = false, g_have_writer = false;
static int g_wdepth = 0;
static std::function<void()> g_observe;
static std::atomic<unsigned> g_y{1};
static bool g_perturb = false;
static void maybe_yield()
{
	if (!g_perturb) return;
	unsigned x = g_y.load(std::memory_order_relaxed);
	x = x * 1664525u + 1013904223u;
	g_y.store(x, std::memory_order_relaxed);
	if ((x >> 16) % 3 == 0) sched_yield();
}
extern "C" int __wrap_pthread_rwlock_wrlock(pthread_rwlock_t *l)
{
	maybe_yield();
	int r = __real_pthread_rwlock_wrlock(l);
	if (g_det && g_have_writer && pthread_equal(pthread_self(), g_writer) && (l == g_lock_pfx || l == g_lock_spki) && !g_in_observe) g_wdepth++;
	return r;
}
extern "C" int __wrap_pthread_rwlock_rdlock(pthread_rwlock_t *l)
{
	maybe_yield();
	return __real_pthread_rwlock_rdlock(l);
}
extern "C" int __wrap_pthread_rwlock_unlock(pthread_rwlock_t *l)
{
	int r = __real_pthread_rwlock_unlock(l);
	if (g_det && g_have_writer && pthread_equal(pthread_self(), g_writer) && (l == g_lock_pfx || l == g_lock_spki) && !g_in_observe && g_wdepth > 0) {
		if (--g_wdepth == 0 && g_observe) {
			g_in_observe = true;
			g_observe();
			g_in_observe = false;
		}
	}
	maybe_yield();
	return r;
}

struct Info { long overlapped = 0, unlock_points = 0, inside_multistep = 0; };

// ------------------------------------------------------------------ deterministic tier
static vf::Result run_det(const Case &c, Info *info)
{
	Traj t = trajectory(c);
	struct pfx_table pt;
	pfx_table_init(&pt, conc_pfx_cb);
	struct spki_table *st = shim_spki_table_new(conc_spki_cb);
	g_lock_pfx = &pt.lock;
	g_lock_spki = (pthread_rwlock_t *)shim_spki_lock(st);
	vf::Result res;
	size_t cur = 0;
	int points_in_op = 0;
	g_observe = [&]() {
		if (!res.ok) return;
		points_in_op++;
		if (info) info->unlock_points++;
		for (auto &q : g_pool) {
			std::string got = lib_answer(&pt, st, q);
			std::string a = model_answer(t.p[cur], t.s[cur], q), b = model_answer(t.p[cur + 1], t.s[cur + 1], q);
			if (got != a && got != b) {
				res = vf::Result::fail((g_prop + ":torn-state-between-critical-sections"),
						       "during op#" + std::to_string(cur) + " (" + c.ops[cur].kind + " " + std::to_string(c.ops[cur].id) + "), at a point where no write lock is held, query kind " + std::to_string(q.kind) + "/" + std::to_string(q.id) +
							       " answers '" + got.substr(0, 120) + "' which is neither the answer before ('" + a.substr(0, 120) + "') nor after ('" + b.substr(0, 120) + "') the operation");
				return;
			}
		}
	};
	g_det = true;
	g_writer = pthread_self();
	g_have_writer = true;
	for (cur = 0; cur < c.ops.size() && res.ok; cur++) {
		points_in_op = 0;
		g_wdepth = 0;
		int rc = apply_lib(&pt, st, c.ops[cur]);
		if (res.ok && rc != t.rc[cur] && c.ops[cur].kind != 's' && c.ops[cur].kind != 'S' && c.ops[cur].kind != 'W' && c.ops[cur].kind != 'X') res = vf::Result::fail((g_prop + ":writer-return-code"), "op#" + std::to_string(cur) + " returned " + std::to_string(rc) + ", sequential model says " + std::to_string(t.rc[cur]));
		if (points_in_op > 1 && info) info->inside_multistep++;
	}
	g_have_writer = false;
	g_det = false;
	g_observe = nullptr;
	pfx_table_free(&pt);
	shim_spki_table_delete(st);
	return res;
}

// ------------------------------------------------------------------ threaded tier
struct Shared {
	std::atomic<int> started{0}, finished{0};
	std::atomic<bool> stop{false};
	const Traj *t;
	struct pfx_table *pt;
	struct spki_table *st;
	std::vector<std::vector<std::string>> ans; // [state][query]
	pthread_mutex_t mx = PTHREAD_MUTEX_INITIALIZER;
	std::string failure;
	std::atomic<long> overlapped{0}, calls{0};
};
static void *reader_main(void *arg)
{
	Shared *sh = (Shared *)arg;
	unsigned x = 12345 + (unsigned)(uintptr_t)pthread_self();
	while (!sh->stop.load(std::memory_order_acquire)) {
		x = x * 1664525u + 1013904223u;
		size_t qi = (x >> 8) % g_pool.size();
		int a = sh->finished.load(std::memory_order_relaxed);
		std::string got = lib_answer(sh->pt, sh->st, g_pool[qi]);
		int b = sh->started.load(std::memory_order_seq_cst);
		sh->calls++;
		if (b > a) sh->overlapped++;
		bool ok = false;
		for (int k = a; k <= b && k < (int)sh->ans.size(); k++) if (sh->ans[k][qi] == got) { ok = true; break; }
		if (!ok) {
			pthread_mutex_lock(&sh->mx);
			if (sh->failure.empty()) sh->failure = "a reader's answer to query kind " + std::to_string(g_pool[qi].kind) + "/" + std::to_string(g_pool[qi].id) + " ('" + got.substr(0, 100) + "') matches no table state between writer operation " + std::to_string(a) + " and " + std::to_string(b);
			pthread_mutex_unlock(&sh->mx);
			sh->stop = true;
		}
	}
	return nullptr;
}
static vf::Result run_thr(const Case &c, Info *info, int rounds)
{
	Traj t = trajectory(c);
	Shared sh;
	sh.t = &t;
	sh.ans.resize(t.p.size());
	for (size_t k = 0; k < t.p.size(); k++) for (auto &q : g_pool) sh.ans[k].push_back(model_answer(t.p[k], t.s[k], q));
	vf::Result res;
	for (int round = 0; round < rounds && res.ok; round++) {
		struct pfx_table pt;
		pfx_table_init(&pt, conc_pfx_cb);
		struct spki_table *st = shim_spki_table_new(conc_spki_cb);
		sh.pt = &pt;
		sh.st = st;
		sh.started = 0;
		sh.finished = 0;
		sh.stop = false;
		g_y = c.yseed + round;
		g_perturb = true;
		std::vector<pthread_t> th(c.readers);
		for (auto &x : th) pthread_create(&x, nullptr, reader_main, &sh);
		for (size_t i = 0; i < c.ops.size() && !sh.stop; i++) {
			sh.started.store((int)i + 1, std::memory_order_seq_cst);
			int rc = apply_lib(&pt, st, c.ops[i]);
			sh.finished.store((int)i + 1, std::memory_order_seq_cst);
			if (rc != t.rc[i] && c.ops[i].kind != 's' && c.ops[i].kind != 'S' && c.ops[i].kind != 'W' && c.ops[i].kind != 'X' && res.ok) res = vf::Result::fail((g_prop + ":writer-return-code"), "op#" + std::to_string(i) + " returned " + std::to_string(rc) + ", sequential model says " + std::to_string(t.rc[i]));
		}
		sh.stop = true;
		for (auto &x : th) pthread_join(x, nullptr);
		g_perturb = false;
		pfx_table_free(&pt);
		shim_spki_table_delete(st);
		if (!sh.failure.empty() && res.ok) res = vf::Result::fail((g_prop + ":not-linearizable"), sh.failure);
	}
	if (info) info->overlapped = sh.overlapped;
	return res;
}

int main(int argc, char **argv)
{
	vf::Args args = vf::parse_args(argc, argv);
	if (args.prop.empty()) args.prop = "C16";
	g_prop = args.prop;
	build_pool();
	if (args.prop == "C06") g_reload_weight = 30;
	std::string mode = args.kv.count("mode") ? args.kv["mode"] : "det";
	int rounds = (int)args.num("rounds", 3);
	auto run_one = [&](const Case &c, Info *info) { return mode == "det" ? run_det(c, info) : run_thr(c, info, rounds); };
	if (!args.replay.empty()) return vf::replay_main(args, [&](const std::string &body) { return run_one(parse_case(body), nullptr); });
	vf::Stats st(args);
	double t0 = vf::now_s();
	rc::check("tables under concurrency (" + mode + ")", [&]() {
		Case c = *genCase();
		std::string text = case_text(c);
		st.current_case(text);
		Info info;
		vf::Result r = run_one(c, &info);
		st.evaluations++;
		st.extra["reader-calls-overlapping-a-write"] += info.overlapped;
		st.extra["unlock-points-observed"] += info.unlock_points;
		st.extra["operations-with->1-unlock-point"] += info.inside_multistep;
		bool nt = mode == "det" ? info.inside_multistep > 0 : info.overlapped > 0;
		if (nt) { st.nontriv(vf::fnv1a(text + mode)); st.sample(text.size() > 500 ? text.substr(0, 500) + "..." : text, 4); }
		if (!r.ok && st.on_failure(text, r)) RC_FAIL(r.sig + ": " + r.what);
	});
	st.write(vf::now_s() - t0);
	return 0;
}
