// Driver "conv": rapidcheck-generated conversations for the conversation simulator (engine/convsim).
// Serves C03 C04 C05 C07 C08 C13 C14 C17 and the conversation parts of C09 / C10.  The engine evaluates
// every oracle on every conversation; a run for property X reports only failures charged to X.
#include "common.hpp"
#include "../engine/convsim.hpp"
#include "../engine/nontrivial.hpp"
#include <rapidcheck.h>

using namespace cs;

template <typename T> static rc::Gen<T> rng(T lo, T hi) { return rc::gen::resize(rc::kNominalSize, rc::gen::inRange<T>(lo, (T)(hi + 1))); }

static rc::Gen<uint64_t> genMask(int density) // density 0: sparse, 1: medium, 2: dense
{
	using namespace rc;
	auto r = gen::arbitrary<uint64_t>();
	if (density == 0) return gen::apply([](uint64_t a, uint64_t b, uint64_t c) { return a & b & c; }, r, r, r);
	if (density == 1) return gen::apply([](uint64_t a, uint64_t b) { return a & b; }, r, r);
	return r;
}

static rc::Gen<Step> genStep(const std::string &focus)
{
	using namespace rc;
	int wf = 30, wc = 30, we = 10, wn = 8, wr = 6, wv = 4, wh = 3, wraw = 2;
	if (focus == "C13") { wv = 12; we = 20; wn = 14; }
	if (focus == "C17") { wc = 60; wf = 12; }
	if (focus == "C07") { wn = 16; wc = 40; }
	if (focus == "C04") { wraw = 14; wh = 10; wf = 40; }
	if (focus == "C06") { wr = 16; wf = 40; } // reloads (after Cache Reset), and reloads that fail
	if (focus == "C14") { wf = 50; we = 14; }
	auto kind = gen::weightedElement<int>({{wc, K_CORRECT}, {wr, K_CACHE_RESET}, {we, K_ERROR}, {wn, K_NOANSWER}, {wf, K_FAULTY}, {wv, K_V0}, {wh, K_HOSTILE}, {wraw, K_RAW}});
	auto part1 = gen::tuple(kind, gen::weightedElement<int>({{12, 0}, {2, 1}, {1, 2}}), /* open_fails */
				gen::weightedElement<int>({{10, 0}, {2, 1}, {1, 2}, {1, 3}, {1, 4}, {2, 5}, {2, 6}, {1, 7}, {1, 8}}), /* open_delay */
				gen::weightedElement<int>({{14, S_OK}, {3, S_PARTIAL}, {1, S_ERROR}, {1, S_WOULDBLOCK}, {1, S_INTR}, {1, S_PARTIAL_THEN_ERROR}, {focus == "C14" ? 4 : 1, S_SLOW_PARTIAL}, {focus == "C14" ? 3 : 1, S_PARTIAL_THEN_INTR}, {focus == "C08" ? 3 : 1, S_ERROR_STICKY}}),
				gen::weightedElement<int>({{8, 0}, {12, 1}, {4, 2}, {2, 3}, {2, 4}, {1, 5}}), /* advance */
				gen::oneOf(genMask(0), genMask(0), genMask(1)), gen::weightedElement<int>({{focus == "C18" ? 14 : 24, 0}, {1, 1}, {2, 2}, {1, 3}, {1, 4}, {1, 5}, {1, 6}, {1, 7}, {1, 8}}) /* bulk */,
				gen::weightedElement<int>({{15, 0}, {1, 1}}) /* new_session */);
	auto part2 = gen::tuple(rng<int>(0, M_N - 1), rng<int>(0, 255), gen::weightedElement<int>({{3, 0}, {1, 1}}) /* keep */,
				gen::weightedOneOf<int>({{4, gen::just(-1)}, {1, gen::element<int>(M_ANN_THEN_WD, M_ANN_THEN_WD, M_DUP_ANNOUNCE, M_WITHDRAW_UNKNOWN, M_PREFIX_BADVER)}}), rng<int>(0, 255),
				rng<int>(0, 15), rng<int>(0, 5), gen::weightedOneOf<int>({{3, rng<int>(0, 3)}, {focus == "C04" ? 3 : 1, rng<int>(4, 7)}}), rng<int>(0, 255));
	int wiv = focus == "C17" ? 1 : 4;
	auto ivg = gen::weightedOneOf<int>({{wiv, gen::element<int>(6, 8, 1, 17, 18)}, {2, rng<int>(0, IV_N - 1)}});
	auto idle = gen::weightedElement<int>({{10, I_TIMEOUT}, {2, I_INTR}, {3, I_CLOSE}, {2, I_ERROR}, {3, I_NOTIFY}, {focus == "C07" || focus == "C05" ? 3 : 1, I_STOP_RESTART}, {focus == "C17" ? 4 : 1, I_LATE_INTR}, {focus == "C07" ? 4 : 1, I_STOP_MIDSYNC}, {focus == "C04" ? 4 : 1, I_STRAY}, {focus == "C17" ? 4 : 1, I_PARTIAL_NOTIFY}});
	auto part3 = gen::tuple(ivg, ivg, ivg, rng<int>(0, 255), gen::weightedElement<int>({{4, 0}, {2, 1}, {3, 2}, {1, 3}}), gen::weightedElement<int>({{5, 0}, {1, 1}}), idle, idle, idle,
				rng<int>(0, 255), gen::container<std::vector<uint8_t>>(gen::arbitrary<uint8_t>()));
	return gen::apply(
		[](std::tuple<int, int, int, int, int, uint64_t, int, int> a, std::tuple<int, int, int, int, int, int, int, int, int> b,
		   std::tuple<int, int, int, int, int, int, int, int, int, int, std::vector<uint8_t>> c) {
			Step s;
			s.kind = std::get<0>(a); s.open_fails = std::get<1>(a); s.open_delay = std::get<2>(a); s.send_mode = std::get<3>(a);
			s.advance = std::get<4>(a); s.toggle = std::get<5>(a); s.bulk = std::get<6>(a); s.new_session = std::get<7>(a);
			s.mut = std::get<0>(b); s.pos = std::get<1>(b); s.keep = std::get<2>(b); s.mut2 = std::get<3>(b); s.pos2 = std::get<4>(b);
			s.err_code = std::get<5>(b); s.err_ver = std::get<6>(b); s.err_flags = std::get<7>(b); s.ver_byte = std::get<8>(b);
			s.iv[0] = std::get<0>(c); s.iv[1] = std::get<1>(c); s.iv[2] = std::get<2>(c); s.order = std::get<3>(c); s.chunk = std::get<4>(c);
			s.notify_prefix = std::get<5>(c); s.idle[0] = std::get<6>(c); s.idle[1] = std::get<7>(c); s.idle[2] = std::get<8>(c); s.fault_off = std::get<9>(c);
			if (s.kind == K_RAW) s.raw = std::get<10>(c);
			return s;
		},
		part1, part2, part3);
}

static rc::Gen<Script> genScript(const std::string &focus)
{
	using namespace rc;
	return gen::apply(
		[](int refresh, int expire, int retry, int ivmode, int session, int sb, uint64_t v0, uint64_t foreign, int dirty, std::vector<Step> steps) {
			Script s;
			s.refresh = refresh; s.expire = expire; s.retry = retry; s.ivmode = ivmode; s.session = session; s.serial_base = sb;
			s.v0mask = v0; s.foreign = foreign; s.dirty = dirty;
			if (steps.size() > 14) steps.resize(14);
			s.steps = std::move(steps);
			return s;
		},
		rng<int>(0, 6), rng<int>(0, 5), rng<int>(0, 4), rng<int>(0, 3), gen::weightedOneOf<int>({{1, gen::element<int>(0, 1, 0xffff)}, {3, rng<int>(0, 0xffff)}}), rng<int>(0, SERIAL_N - 1),
		gen::oneOf(genMask(1), genMask(2), genMask(0)), gen::oneOf(genMask(0), genMask(1)), rng<int>(0, 1), gen::container<std::vector<Step>>(genStep(focus)));
}

int main(int argc, char **argv)
{
	vf::Args args = vf::parse_args(argc, argv);
	if (args.prop.empty()) args.prop = "C03";
	Options opt;
	opt.trace = true;
	opt.battery = args.prop == "C06" || args.prop == "C04";
	opt.focus = args.prop;
	std::string mode = args.kv.count("mode") ? args.kv["mode"] : "plain";
	opt.no_midstop = mode == "chunk";
	// metamorphic partners: the same script under another read/write chunking (C04) or another stack/heap dirtying pattern (C14)
	auto run_script = [&](const Script &sc) -> Report {
		Report r = run(sc, opt);
		if (!r.ok || mode == "plain") return r;
		Options o2 = opt;
		if (mode == "chunk") o2.whole_chunks = true;
		if (mode == "dirty") o2.dirty_override = sc.dirty ? 0 : 1;
		Report r2 = run(sc, o2);
		bool capped = r.cls.count("step-cap-hit(inconclusive)") || r2.cls.count("step-cap-hit(inconclusive)"); // the call budget is not part of the outcome
		if (mode == "chunk" && r.digest != r2.digest && !capped) {
			r.ok = false; r.prop = "C04"; r.sig = "C04:outcome-depends-on-chunking";
			r.what = "the same conversation ends differently when the transport delivers/accepts the bytes in other chunk sizes: scripted chunking -> " + r.digest.substr(0, 300) + " ; largest chunks -> " + r2.digest.substr(0, 300);
		}
		if (mode == "dirty" && r.sent_hex != r2.sent_hex) {
			size_t i = 0;
			while (i < r.sent_hex.size() && i < r2.sent_hex.size() && r.sent_hex[i] == r2.sent_hex[i]) i++;
			r.ok = false; r.prop = "C14"; r.sig = "C14:sent-bytes-depend-on-uninitialised-memory";
			r.what = "the bytes handed to the transport differ when stack and heap are pre-filled with 0x00 instead of 0xFF (first difference at hex offset " + std::to_string(i) + ": ..." + r.sent_hex.substr(i > 40 ? i - 40 : 0, 80) + "... vs ..." + r2.sent_hex.substr(i > 40 ? i - 40 : 0, 80) + "...)";
		}
		r.cls["metamorphic-pairs-compared"]++;
		return r;
	};
	// C18 (b): every allocation made during the conversation is failed in turn
	vf::Stats *stp = nullptr;
	auto run_alloc = [&](const Script &sc) -> Report {
		Report r0 = run(sc, opt);
		if (!r0.ok) return r0;
		bool clean_end = r0.converged && r0.cls.count("stop-start-cycles") == 0 && !r0.weak;
		if (clean_end && (r0.leaked || r0.foreign_free)) {
			r0.ok = false; r0.prop = "C18"; r0.sig = r0.leaked ? "C18:conv-blocks-not-returned-to-allocator" : "C18:conv-foreign-block-freed";
			r0.what = "failure-free conversation: " + std::to_string(r0.leaked) + " block(s) of the configured allocator still allocated after the tables were freed, " + std::to_string(r0.foreign_free) + " unknown block(s) passed to its free";
			return r0;
		}
		long maxk = args.num("maxk", 1500);
		long N = r0.allocs, stride = N > maxk ? N / maxk + 1 : 1;
		r0.cls["conversations-enumerated-for-allocation-failures"]++;
		for (long k = 1; k <= N; k += stride) {
			if (stp) stp->current_case(to_text(sc) + "# failing allocation k=" + std::to_string(k) + " of " + std::to_string(N) + "\n");
			Options o2 = opt;
			o2.fail_alloc = k;
			Report rk = run(sc, o2);
			r0.cls["allocation-failures-injected"]++;
			if (rk.alloc_failed_hit) r0.cls["allocation-failures-that-hit-the-library"]++;
			if (rk.ok && rk.foreign_free) {
				rk.ok = false; rk.prop = "C18"; rk.sig = "C18:block-released-twice-after-allocation-failure";
				rk.what = std::to_string(rk.foreign_free) + " block(s) were passed to the configured free although they were not (or no longer) allocated";
			}
			if (!rk.ok) {
				rk.what = "with allocation #" + std::to_string(k) + " of " + std::to_string(N) + " failing: " + rk.what;
				if (rk.prop != "C18") { rk.sig = "C18:after-allocation-failure(" + rk.sig + ")"; rk.prop = "C18"; }
				rk.cls = r0.cls;
				return rk;
			}
		}
		return r0;
	};
	auto run_any = [&](const Script &sc) -> Report { return mode == "alloc" ? run_alloc(sc) : run_script(sc); };
	auto run_text = [&](const std::string &body) {
		Script sc = from_text(body);
		Report r = run_any(sc);
		if (!r.ok || getenv("VERIF_TRACE")) fprintf(stderr, "%s", r.trace.c_str());
		if (!r.ok && r.prop != args.prop) {
			printf("note: conversation fails for %s (%s), not for %s\n", r.prop.c_str(), r.sig.c_str(), args.prop.c_str());
			return vf::Result::pass();
		}
		return r.ok ? vf::Result::pass() : vf::Result::fail(r.sig, r.what);
	};
	if (args.kv.count("dump-corpus")) { // write rapidcheck-generated scripts in the byte form of the fuzz target (seed corpus)
		std::string dir = args.kv["dump-corpus"];
		int n = 0;
		rc::check("dump", [&]() {
			Script sc = *genScript("C04");
			if (sc.steps.empty() || sc.steps.size() > 6) return;
			wire::Bytes b = to_bytes(sc);
			Script back = from_bytes(b.data(), b.size());
			if (to_text(back) != to_text(sc)) { /* fields the byte form cannot carry (bulk, v0bulk): keep anyway */ }
			char name[64];
			snprintf(name, sizeof name, "/seed-%03d", n++);
			std::ofstream f(dir + name, std::ios::binary);
			f.write((const char *)b.data(), b.size());
		});
		return 0;
	}
	if (!args.replay.empty()) return vf::replay_main(args, run_text);
	vf::Stats st(args);
	stp = &st;
	double t0 = vf::now_s();
	std::string focus = args.prop;
	rc::check("conversation (" + args.prop + ")", [&]() {
		Script sc = *genScript(focus);
		std::string text = to_text(sc);
		st.current_case(text);
		Report r = run_any(sc);
		st.evaluations++;
		if (!r.ok && r.prop != args.prop) { st.cls("conversation-cut-short-by-a-failure-of-another-property(" + r.prop + ")"); return; }
		for (auto &kv : r.cls) st.cls(kv.first, kv.second);
		if (r.weak) st.cls("conversations-that-went-weak");
		if (r.converged) st.cls("conversations-converged");
		if (nontrivial(args.prop, r)) {
			st.nontriv(vf::fnv1a(text));
			std::string smp = text + "--- trace ---\n" + r.trace;
			st.sample(smp.size() > 1400 ? smp.substr(0, 1400) + "...(truncated)" : smp, 4);
		}
		if (!r.ok) {
			vf::Result fr = vf::Result::fail(r.sig, r.what);
			if (st.on_failure(text, fr)) RC_FAIL(r.sig + ": " + r.what);
		}
	});
	st.write(vf::now_s() - t0);
	return 0;
}
