// Driver "enumnames": C20 — rtr_state_to_str / rtr_mgr_status_to_str return the enumerator's name for
// every declared enumerator and NULL for every other value, never reading outside the name table.
// The enumerator lists are parsed from the public headers of the tree under test at run time
// (so an enumerator added later is picked up); each probe runs in a forked child so that a
// UBSan bounds report / ASan report / SIGSEGV becomes a violation with the value as replay.
#include "common.hpp"
#include "../shim/rtr_shim.h"
#include <rapidcheck.h>
#include <climits>
#include <regex>
#include <sys/wait.h>
extern "C" {
#include "rtrlib/rtr_mgr.h"
}

struct Enumr { std::string name; long value; };

static std::vector<Enumr> parse_enum(const std::string &path, const std::string &enum_name)
{
	std::string src = vf::read_file(path);
	// strip comments
	src = std::regex_replace(src, std::regex("/\\*[\\s\\S]*?\\*/"), " ");
	src = std::regex_replace(src, std::regex("//[^\n]*"), " ");
	std::smatch m;
	std::regex re("enum\\s+" + enum_name + "\\s*\\{([^}]*)\\}");
	std::vector<Enumr> out;
	if (!std::regex_search(src, m, re)) return out;
	std::string body = m[1];
	std::stringstream ss(body);
	std::string item;
	long next = 0;
	while (std::getline(ss, item, ',')) {
		std::smatch im;
		if (std::regex_search(item, im, std::regex("([A-Za-z_][A-Za-z0-9_]*)\\s*(=\\s*(-?[0-9xXa-fA-F]+))?"))) {
			long v = next;
			if (im[3].matched) v = strtol(im[3].str().c_str(), nullptr, 0);
			out.push_back({im[1], v});
			next = v + 1;
		}
	}
	return out;
}

// run f(value) in a child; returns: 0 = returned NULL, 1 = returned string written to `out`, 2 = crashed / sanitizer report
static int probe(int which, long value, std::string &out, std::string &diag)
{
	int fd[2];
	if (pipe(fd) != 0) return 2;
	fflush(nullptr);
	pid_t pid = fork();
	if (pid == 0) {
		close(fd[0]);
		// sanitizer reports of the child go to the pipe's sibling: keep stderr quiet
		const char *s = which == 0 ? rtr_state_to_str((enum rtr_socket_state)value) : rtr_mgr_status_to_str((enum rtr_mgr_status)value);
		char buf[256];
		int n;
		if (!s) n = snprintf(buf, sizeof buf, "N");
		else {
			// copying the string makes ASan validate the pointer we were given
			n = snprintf(buf, sizeof buf, "S%.200s", s);
		}
		(void)!write(fd[1], buf, n);
		_exit(0);
	}
	close(fd[1]);
	char buf[300];
	ssize_t n = read(fd[0], buf, sizeof buf - 1);
	close(fd[0]);
	int status = 0;
	waitpid(pid, &status, 0);
	if (n <= 0 || !WIFEXITED(status) || WEXITSTATUS(status) != 0) {
		diag = WIFSIGNALED(status) ? "killed by signal " + std::to_string(WTERMSIG(status)) : "exit status " + std::to_string(WEXITSTATUS(status)) + " (sanitizer report)";
		return 2;
	}
	buf[n] = 0;
	if (buf[0] == 'N') return 0;
	out = buf + 1;
	return 1;
}

static std::vector<Enumr> g_enum[2];
static const char *FN[2] = {"rtr_state_to_str", "rtr_mgr_status_to_str"};

static vf::Result run_case(int which, long value)
{
	using vf::Result;
	const Enumr *e = nullptr;
	for (auto &x : g_enum[which]) if (x.value == value) e = &x;
	std::string s, diag;
	int r = probe(which, value, s, diag);
	std::string call = std::string(FN[which]) + "(" + std::to_string(value) + (e ? " = " + e->name : "") + ")";
	if (r == 2) return Result::fail(e ? "C20:enumerator-crash" : "C20:out-of-range-read", call + " did not return cleanly: " + diag);
	if (e) {
		if (r == 0) return Result::fail("C20:enumerator-null", call + " returned NULL for a declared enumerator");
		if (s != e->name) return Result::fail("C20:wrong-name", call + " returned \"" + vf::jesc(s) + "\"");
	} else if (r != 0)
		return Result::fail("C20:out-of-range-nonnull", call + " returned \"" + vf::jesc(s.substr(0, 40)) + "\" instead of NULL for a value outside the enumeration");
	return Result::pass();
}

int main(int argc, char **argv)
{
	vf::Args args = vf::parse_args(argc, argv);
	if (args.prop.empty()) args.prop = "C20";
	std::string repo = getenv("VERIF_REPO") ? getenv("VERIF_REPO") : "/repo";
	g_enum[0] = parse_enum(repo + "/rtrlib/rtr/rtr.h", "rtr_socket_state");
	g_enum[1] = parse_enum(repo + "/rtrlib/rtr_mgr.h", "rtr_mgr_status");
	if (g_enum[0].size() < 5 || g_enum[1].size() < 3) {
		fprintf(stderr, "cannot parse the enums from the headers under %s\n", repo.c_str());
		return 3;
	}
	auto run_text = [&](const std::string &body) {
		std::istringstream in(body);
		int which = 0;
		long v = 0;
		in >> which >> v;
		return run_case(which & 1, v);
	};
	if (!args.replay.empty()) return vf::replay_main(args, run_text);
	vf::Stats st(args);
	double t0 = vf::now_s();
	auto one = [&](int which, long v, const char *cls) {
		std::string text = std::to_string(which) + " " + std::to_string(v) + "\n";
		st.current_case(text);
		vf::Result r = run_case(which, v);
		st.evaluations++;
		st.cls(cls);
		st.nontriv(vf::fnv1a(text));
		if (st.samples.size() < 12) st.samples.push_back(std::string(FN[which]) + "(" + std::to_string(v) + ")");
		return r.ok || !st.on_failure(text, r);
	};
	bool ok = true;
	// exhaustive: every declared enumerator, and the values around the table
	for (int w = 0; w < 2 && ok; w++) {
		for (auto &e : g_enum[w]) if (ok) ok = one(w, e.value, "declared-enumerator");
		long cnt = (long)g_enum[w].size();
		for (long v : {-1L, cnt, cnt + 1, 255L, 256L, 65536L, (long)INT_MAX, (long)INT_MIN, (long)UINT_MAX})
			if (ok) ok = one(w, v, "boundary-outside");
	}
	st.extra["declared_socket_states"] = g_enum[0].size();
	st.extra["declared_mgr_status"] = g_enum[1].size();
	if (ok)
		rc::check("other integers give NULL", [&]() {
			int w = *rc::gen::inRange(0, 2);
			long v = *rc::gen::weightedOneOf<long>({{3, rc::gen::resize(rc::kNominalSize, rc::gen::inRange<long>(-64, 4096))}, {1, rc::gen::map(rc::gen::arbitrary<int>(), [](int x) { return (long)x; })}});
			for (auto &e : g_enum[w]) if (e.value == v) RC_DISCARD("declared");
			std::string text = std::to_string(w) + " " + std::to_string(v) + "\n";
			st.current_case(text);
			vf::Result r = run_case(w, v);
			st.evaluations++;
			st.cls("random-outside");
			st.nontriv(vf::fnv1a(text));
			if (!r.ok && st.on_failure(text, r)) RC_FAIL(r.sig + ": " + r.what);
		});
	st.write(vf::now_s() - t0);
	return 0;
}
