// Driver "spki": C10 — the router-key table is an exact set keyed by (AS, SKI, key, source),
// hash side (spki_table_get_all) and list side (spki_table_search_by_ski) agree with a std::set
// model after every operation, callbacks mirror the contents.  See DESIGN.md §7 C10.
#include "common.hpp"
#include "../model/spki_model.hpp"
#include "../shim/rtr_shim.h"
#include <rapidcheck.h>
#include <algorithm>
extern "C" {
#include "rtrlib/rtr_mgr.h"
}

using sm::Key;

static struct rtr_socket g_socks[4];
static std::vector<uint32_t> g_as; // AS universe: index -> AS number

static void init_as_universe()
{
	// 3 groups of 4 AS numbers whose tommy_inthash_u32 agree in the low 8 bits (same bucket at
	// table sizes 64, 128 and 256), plus boundary values.  Deterministic (first hits from 1 upward).
	g_as = {0, 1, 0xffffffffu, 65000};
	std::map<uint32_t, std::vector<uint32_t>> grp;
	int done = 0;
	for (uint32_t a = 2; a < 200000 && done < 3; a++) {
		uint32_t low = shim_inthash_u32(a) & 0xff;
		auto &g = grp[low];
		if (g.size() < 4) {
			g.push_back(a);
			if (g.size() == 4) {
				for (auto x : g) g_as.push_back(x);
				done++;
			}
		}
	}
}

static std::array<uint8_t, 20> ski_of(int i)
{
	std::array<uint8_t, 20> s{};
	for (int j = 0; j < 20; j++) s[j] = (uint8_t)(0x10 * (i % 4 + 1) + (i % 4 == 3 ? 0 : j));
	if (i % 4 == 3) s[19] = 1; // differs from a would-be constant pattern only in the last byte
	return s;
}
static std::array<uint8_t, 91> spki_of(int i)
{
	std::array<uint8_t, 91> s{};
	for (int j = 0; j < 91; j++) s[j] = (uint8_t)(j * 3 + 7);
	if (i % 3 == 1) s[90] ^= 0xff; // differs only in the last byte
	if (i % 3 == 2) s[0] ^= 0x80;	// differs only in the first byte
	return s;
}

struct Op {
	char kind = 'A'; // A add, R remove, S src_remove, G get_all, K search_by_ski, B bulk add, D bulk delete, W reload (copy/swap/diff), C copy check
	int asn = 0, ski = 0, spki = 0, src = 0, k = -1, near = 0, n = 0;
};
struct Case { std::vector<Op> ops; };

static std::string case_text(const Case &c)
{
	std::ostringstream o;
	for (auto &p : c.ops)
		o << p.kind << " " << p.asn << " " << p.ski << " " << p.spki << " " << p.src << " " << p.k << " " << p.near << " " << p.n << "\n";
	return o.str();
}
static Case parse_case(const std::string &t)
{
	Case c;
	std::istringstream in(t);
	std::string l;
	while (std::getline(in, l)) {
		if (l.empty() || l[0] == '#') continue;
		std::istringstream ls(l);
		std::string w;
		ls >> w;
		if (w.size() != 1) continue;
		Op p;
		p.kind = w[0];
		ls >> p.asn >> p.ski >> p.spki >> p.src >> p.k >> p.near >> p.n;
		c.ops.push_back(p);
	}
	return c;
}

template <typename T> static rc::Gen<T> rng(T lo, T hi) { return rc::gen::resize(rc::kNominalSize, rc::gen::inRange<T>(lo, (T)(hi + 1))); }

static rc::Gen<Op> genOp()
{
	using namespace rc;
	return gen::apply(
		[](char kind, int asn, int ski, int spki, int src, int k, int near, int n) {
			Op p;
			p.kind = kind;
			p.asn = asn;
			p.ski = ski;
			p.spki = spki;
			p.src = src;
			p.k = (kind == 'R') ? k : (k % 4 == 0 ? k : -1); // removals mostly hit, adds sometimes duplicate
			p.near = near;
			p.n = n;
			return p;
		},
		gen::weightedElement<char>({{30, 'A'}, {22, 'R'}, {4, 'S'}, {12, 'G'}, {8, 'K'}, {6, 'B'}, {6, 'D'}, {5, 'W'}, {3, 'C'}}),
		rng<int>(0, 15), rng<int>(0, 3), rng<int>(0, 2), rng<int>(0, 2), rng<int>(0, 600),
		gen::weightedElement<int>({{5, 0}, {1, 1}, {1, 2}, {1, 3}, {1, 4}}), rng<int>(1, 90));
}
static rc::Gen<Case> genCase()
{
	return rc::gen::map(rc::gen::container<std::vector<Op>>(genOp()), [](std::vector<Op> v) {
		Case c;
		c.ops = std::move(v);
		return c;
	});
}

// ------------------------------------------------------------------ execution
struct Ctx {
	std::set<Key> mirror;
	bool bad = false;
	std::string msg;
	struct spki_table *live = nullptr;
	std::vector<std::pair<Key, bool>> events; // every callback in order (cleared by the reload op)
};
static Ctx *g_ctx;

static int src_index(const struct rtr_socket *s)
{
	for (int i = 0; i < 4; i++)
		if (s == &g_socks[i]) return i;
	return -1;
}
static Key from_lib(const struct spki_record *r)
{
	Key k;
	k.asn = r->asn;
	memcpy(k.ski.data(), r->ski, 20);
	memcpy(k.spki.data(), r->spki, 91);
	k.src = src_index(r->socket);
	return k;
}
static struct spki_record to_lib(const Key &k)
{
	struct spki_record r;
	memset(&r, 0, sizeof r);
	r.asn = k.asn;
	memcpy(r.ski, k.ski.data(), 20);
	memcpy(r.spki, k.spki.data(), 91);
	r.socket = &g_socks[k.src];
	return r;
}
static void update_cb(struct spki_table *t, const struct spki_record rec, const bool added)
{
	Ctx *c = g_ctx;
	if (!c || t != c->live) return;
	Key k = from_lib(&rec);
	c->events.push_back({k, added});
	if (added) {
		if (!c->mirror.insert(k).second && !c->bad) { c->bad = true; c->msg = "callback 'added' for a key the log already holds: " + k.str(); }
	} else if (!c->mirror.erase(k) && !c->bad) { c->bad = true; c->msg = "callback 'removed' for a key the log does not hold: " + k.str(); }
}

static const Key *kth(const sm::Table &t, int k)
{
	if (k < 0 || t.s.empty()) return nullptr;
	auto it = t.s.begin();
	std::advance(it, k % t.s.size());
	return &*it;
}
static Key near_miss(Key k, int f)
{
	switch (f) {
	case 1: k.asn += 1; break;
	case 2: k.ski[19] ^= 1; break;
	case 3: k.spki[45] ^= 1; break;
	case 4: k.src = (k.src + 1) % 3; break;
	default: break;
	}
	return k;
}

struct RunInfo { bool grew = false, shrank = false, src_or_swap = false; unsigned max_bits = 6, min_bits_after_grow = 99; };

static std::string diff(const std::vector<Key> &lib, const std::vector<Key> &want)
{
	std::multiset<Key> l(lib.begin(), lib.end()), w(want.begin(), want.end());
	std::ostringstream o;
	int n = 0;
	for (auto &k : w) if (l.count(k) < w.count(k) && n++ < 3) o << " missing{" << k.str() << "}";
	for (auto &k : l) if (w.count(k) < l.count(k) && n++ < 3) o << " extra{" << k.str() << "}";
	return o.str();
}

static vf::Result run_case(const Case &c, vf::Stats *st, RunInfo *io = nullptr)
{
	sm::Table model;
	Ctx ctx;
	g_ctx = &ctx;
	struct spki_table *tab = shim_spki_table_new(update_cb);
	ctx.live = tab;
	RunInfo info;
	vf::Result res;
	std::set<uint32_t> as_seen;
	auto FAIL = [&](const std::string &sig, const std::string &what) { if (res.ok) res = vf::Result::fail(sig, what); };

	auto check_get_all = [&](struct spki_table *t, const sm::Table &m, uint32_t asn, int ski, const std::string &after) {
		auto s = ski_of(ski);
		struct spki_record *r = nullptr;
		unsigned int n = 0;
		int rc = spki_table_get_all(t, asn, s.data(), &r, &n);
		std::vector<Key> got;
		for (unsigned i = 0; i < n; i++) got.push_back(from_lib(&r[i]));
		free(r);
		auto want = m.get_all(asn, s);
		std::sort(got.begin(), got.end());
		{ // the manager's accessor must give the same answer
			struct rtr_mgr_config cfg;
			memset(&cfg, 0, sizeof cfg);
			cfg.spki_table = t;
			struct spki_record *r2 = nullptr;
			unsigned int n2 = 0;
			int rc2 = rtr_mgr_get_spki(&cfg, asn, s.data(), &r2, &n2);
			std::vector<Key> got2;
			for (unsigned i = 0; i < n2; i++) got2.push_back(from_lib(&r2[i]));
			free(r2);
			std::sort(got2.begin(), got2.end());
			if (rc2 != rc || got2 != got) FAIL("C10:mgr_get_spki", "rtr_mgr_get_spki disagrees with spki_table_get_all after " + after);
		}
		if (rc != 0) FAIL("C10:get_all-rc", "spki_table_get_all returned " + std::to_string(rc));
		else if (got != want) FAIL("C10:get_all", "get_all(AS" + std::to_string(asn) + ", ski#" + std::to_string(ski) + ") after " + after + " differs from the model:" + diff(got, want));
	};
	auto check_by_ski = [&](struct spki_table *t, const sm::Table &m, int ski, const std::string &after) {
		auto s = ski_of(ski);
		struct spki_record *r = nullptr;
		unsigned int n = 0;
		int rc = spki_table_search_by_ski(t, s.data(), &r, &n);
		std::vector<Key> got;
		for (unsigned i = 0; i < n; i++) got.push_back(from_lib(&r[i]));
		free(r);
		auto want = m.by_ski(s);
		std::sort(got.begin(), got.end());
		if (rc != 0) FAIL("C10:search-rc", "spki_table_search_by_ski returned " + std::to_string(rc));
		else if (got != want) FAIL("C10:search_by_ski", "search_by_ski(ski#" + std::to_string(ski) + ") after " + after + " differs from the model:" + diff(got, want));
	};
	auto check_mirror = [&](const std::string &after) {
		if (ctx.bad) FAIL("C10:spurious-callback", ctx.msg + " (after " + after + ")");
		else if (ctx.mirror != model.s) {
			std::vector<Key> mv(ctx.mirror.begin(), ctx.mirror.end()), wv(model.s.begin(), model.s.end());
			FAIL(after.find(" S") != std::string::npos ? "C10:src-remove-no-notify" : "C10:log-mismatch",
			     "replaying the callbacks does not give the table contents after " + after + ":" + diff(mv, wv));
		}
	};
	auto full_sweep = [&](struct spki_table *t, const sm::Table &m, const std::string &after) {
		for (int s = 0; s < 4 && res.ok; s++) check_by_ski(t, m, s, after);
		std::set<uint32_t> as = as_seen;
		for (auto &k : m.s) as.insert(k.asn);
		for (auto a : as)
			for (int s = 0; s < 4 && res.ok; s++) check_get_all(t, m, a, s, after);
		if (shim_spki_count(t) != m.s.size()) FAIL("C10:count", "hash table holds " + std::to_string(shim_spki_count(t)) + " entries, model " + std::to_string(m.s.size()) + " after " + after);
	};
	auto track_bits = [&]() {
		unsigned b = shim_spki_bucket_bits(tab);
		if (b > info.max_bits) { info.max_bits = b; info.grew = true; }
		if (info.grew && b < info.max_bits) info.shrank = true;
	};
	auto universe_key = [&](const Op &p) {
		Key k;
		k.asn = g_as[(unsigned)p.asn % g_as.size()];
		k.ski = ski_of(p.ski);
		k.spki = spki_of(p.spki);
		k.src = (unsigned)p.src % 3;
		return k;
	};

	for (size_t oi = 0; oi < c.ops.size() && res.ok; oi++) {
		const Op &p = c.ops[oi];
		std::string tag = "op#" + std::to_string(oi) + " " + p.kind;
		switch (p.kind) {
		case 'A': {
			const Key *ref = kth(model, p.k);
			Key k = ref ? near_miss(*ref, p.near) : universe_key(p);
			as_seen.insert(k.asn);
			if (st) st->cls(ref ? (p.near ? "add-near-duplicate" : "add-duplicate") : "add");
			int want = model.add(k);
			struct spki_record r = to_lib(k);
			int got = spki_table_add_entry(tab, &r);
			if (got != want) FAIL("C10:add-rc", "add " + k.str() + " returned " + std::to_string(got) + ", model says " + std::to_string(want));
			for (int s = 0; s < 4 && res.ok; s++) check_get_all(tab, model, k.asn, s, tag);
			for (int s = 0; s < 4 && res.ok; s++) check_by_ski(tab, model, s, tag);
			check_mirror(tag);
			break;
		}
		case 'R': {
			const Key *ref = kth(model, p.k);
			Key k = ref ? near_miss(*ref, p.near) : universe_key(p);
			as_seen.insert(k.asn);
			if (st) st->cls(model.s.count(k) ? "remove-present" : "remove-absent");
			int want = model.remove(k);
			struct spki_record r = to_lib(k);
			int got = spki_table_remove_entry(tab, &r);
			if (got != want) FAIL("C10:remove-rc", "remove " + k.str() + " returned " + std::to_string(got) + ", model says " + std::to_string(want));
			for (int s = 0; s < 4 && res.ok; s++) check_get_all(tab, model, k.asn, s, tag);
			for (int s = 0; s < 4 && res.ok; s++) check_by_ski(tab, model, s, tag);
			check_mirror(tag);
			break;
		}
		case 'S': {
			int s = (unsigned)p.src % 3;
			size_t n = model.src_remove(s);
			if (st) st->cls(n ? "src_remove-hit" : "src_remove-empty");
			if (n) info.src_or_swap = true;
			int got = spki_table_src_remove(tab, &g_socks[s]);
			if (got != 0) FAIL("C10:src-remove-rc", "src_remove returned " + std::to_string(got));
			full_sweep(tab, model, tag);
			check_mirror(tag);
			break;
		}
		case 'G': {
			if (st) st->cls("get_all");
			check_get_all(tab, model, g_as[(unsigned)p.asn % g_as.size()], p.ski, tag);
			break;
		}
		case 'K': {
			if (st) st->cls("search_by_ski");
			check_by_ski(tab, model, p.ski, tag);
			break;
		}
		case 'B': { // bulk add n keys with distinct AS numbers: walks the table across grow steps
			if (st) st->cls("bulk-add");
			for (int i = 0; i < p.n && res.ok; i++) {
				Key k;
				k.asn = 1000 + (uint32_t)(p.asn * 97 + i);
				k.ski = ski_of(p.ski + i);
				k.spki = spki_of(p.spki);
				k.src = (unsigned)p.src % 3;
				as_seen.insert(k.asn);
				int want = model.add(k);
				struct spki_record r = to_lib(k);
				int got = spki_table_add_entry(tab, &r);
				if (got != want) FAIL("C10:add-rc", "bulk add " + k.str() + " returned " + std::to_string(got) + ", model says " + std::to_string(want));
				track_bits();
			}
			full_sweep(tab, model, tag);
			check_mirror(tag);
			break;
		}
		case 'D': { // bulk delete: remove up to n keys (every (near+1)-th in set order)
			if (st) st->cls("bulk-delete");
			std::vector<Key> victims;
			int step = p.near + 1, i = 0;
			for (auto &k : model.s) if (i++ % step == 0 && (int)victims.size() < p.n) victims.push_back(k);
			for (auto &k : victims) {
				int want = model.remove(k);
				struct spki_record r = to_lib(k);
				int got = spki_table_remove_entry(tab, &r);
				if (got != want) FAIL("C10:remove-rc", "bulk remove " + k.str() + " returned " + std::to_string(got));
				track_bits();
				if (!res.ok) break;
			}
			full_sweep(tab, model, tag);
			check_mirror(tag);
			break;
		}
		case 'C': { // copy_except_socket into a fresh table: dst == model minus source, src untouched
			if (st) st->cls("copy_except");
			int s = (unsigned)p.src % 3;
			struct spki_table *dst = shim_spki_table_new(nullptr);
			int rc = spki_table_copy_except_socket(tab, dst, &g_socks[s]);
			sm::Table m2 = model;
			m2.src_remove(s);
			if (rc != 0) FAIL("C10:copy-rc", "copy_except_socket returned " + std::to_string(rc));
			full_sweep(dst, m2, tag + " (copy)");
			full_sweep(tab, model, tag + " (source of copy)");
			shim_spki_table_delete(dst);
			break;
		}
		case 'W': { // the reload sequence: copy everybody else's keys aside, load a new set for source s, swap, diff
			if (st) st->cls("reload(copy+swap+diff)");
			info.src_or_swap = true;
			int s = (unsigned)p.src % 3;
			struct spki_table *sh = shim_spki_table_new(nullptr);
			int rc = spki_table_copy_except_socket(tab, sh, &g_socks[s]);
			if (rc != 0) FAIL("C10:copy-rc", "copy_except_socket returned " + std::to_string(rc));
			sm::Table m2 = model;
			m2.src_remove(s);
			// new set: keep every (near+2)-th old key of s, add n%7 new ones
			auto old = model.s;
			int i = 0;
			for (auto &k : old)
				if (k.src == s && i++ % (p.near + 2) == 0) {
					struct spki_record r = to_lib(k);
					int g = spki_table_add_entry(sh, &r);
					int w = m2.add(k);
					if (g != w) FAIL("C10:add-rc", "shadow add returned " + std::to_string(g));
				}
			for (int j = 0; j < p.n % 7; j++) {
				Key k;
				k.asn = g_as[(unsigned)(p.asn + j) % g_as.size()];
				k.ski = ski_of(p.ski + j);
				k.spki = spki_of(p.spki + j);
				k.src = s;
				as_seen.insert(k.asn);
				struct spki_record r = to_lib(k);
				int g = spki_table_add_entry(sh, &r);
				int w = m2.add(k);
				if (g != w) FAIL("C10:add-rc", "shadow add returned " + std::to_string(g));
			}
			g_ctx->events.clear();
			spki_table_swap(tab, sh);
			spki_table_notify_diff(tab, sh, &g_socks[s]);
			{ // only the net difference of the reloading source is reported: one 'added' per key of new \ old, one 'removed' per key of old \ new
				std::multiset<std::pair<Key, bool>> got(g_ctx->events.begin(), g_ctx->events.end()), want;
				for (auto &k : m2.s) if (!model.s.count(k)) want.insert({k, true});
				for (auto &k : model.s) if (!m2.s.count(k)) want.insert({k, false});
				if (got != want) {
					std::ostringstream o;
					int n = 0;
					for (auto &e : got) if (got.count(e) > want.count(e) && n++ < 4) o << " surplus{" << (e.second ? "added " : "removed ") << e.first.str() << "}";
					for (auto &e : want) if (!got.count(e) && n++ < 4) o << " missing{" << (e.second ? "added " : "removed ") << e.first.str() << "}";
					FAIL("C10:reload-not-net-difference", "the callbacks of swap + notify_diff (" + std::to_string(got.size()) + ") are not the net difference (" + std::to_string(want.size()) + " changes):" + o.str());
				}
			}
			model = m2;
			full_sweep(tab, model, tag);
			check_mirror(tag);
			spki_table_free_without_notify(sh);
			free(sh);
			track_bits();
			break;
		}
		default: break;
		}
		track_bits();
	}
	if (res.ok) full_sweep(tab, model, "end of history");
	shim_spki_table_delete(tab);
	g_ctx = nullptr;
	if (io) *io = info;
	return res;
}

int main(int argc, char **argv)
{
	vf::Args args = vf::parse_args(argc, argv);
	if (args.prop.empty()) args.prop = "C10";
	init_as_universe();
	if (!args.replay.empty())
		return vf::replay_main(args, [&](const std::string &body) { return run_case(parse_case(body), nullptr); });
	vf::Stats st(args);
	double t0 = vf::now_s();
	rc::check("spki_table vs model", [&]() {
		Case c = *genCase();
		std::string text = case_text(c);
		st.current_case(text);
		RunInfo info;
		vf::Result r = run_case(c, &st, &info);
		st.evaluations++;
		if (info.grew) st.cls("history-crossing-a-grow-step");
		if (info.shrank) st.cls("history-crossing-a-shrink-step");
		if (info.grew && info.shrank && info.src_or_swap) {
			st.nontriv(vf::fnv1a(text));
			st.sample(text.size() > 600 ? text.substr(0, 600) + "...(truncated)" : text);
		}
		if (!r.ok && st.on_failure(text, r)) RC_FAIL(r.sig + ": " + r.what);
	});
	st.write(vf::now_s() - t0);
	return 0;
}
