// Driver "tables": C01 (RFC 6811 agreement), C02 (exact set), C09 part (a) (callbacks = change log)
// Model-based stateful testing of pfx_table against model/pfx_model.hpp.  See DESIGN.md §7.
#include "common.hpp"
#include "../model/pfx_model.hpp"
#include "../shim/rtr_shim.h"
extern "C" {
#include "rtrlib/rtr_mgr.h"
#include "rtrlib/pfx/pfx_private.h"
}
#include <rapidcheck.h>
#include <arpa/inet.h>

using pm::Rec;

static const uint32_t AS_SET[6] = {0, 1, 2, 3, 65000, 0xffffffffu};
static struct rtr_socket g_socks[4]; // only their addresses are used (record source)

struct Op {
	char kind = 'A'; // A add, R remove, S src_remove, Q query, C chain, F free+reinit, W reload (copy aside, load, swap, diff)
	int fam = 0, b = 0, len = 0, flip = 0, maxlen = 0, asn = 0, src = 0;
	int k = -1;   // >=0: refer to the (k mod n)-th record currently in the model
	int mode = 0; // variant, see run_case
	int ext = 0;
	uint32_t tail[4] = {0, 0, 0, 0};
};

struct Case {
	std::array<std::array<uint8_t, 16>, 3> bases{};
	std::vector<Op> ops;
};

// ---------------------------------------------------------------- text form
static std::string case_text(const Case &c)
{
	std::ostringstream o;
	for (int i = 0; i < 3; i++) {
		o << "base " << i << " ";
		for (int j = 0; j < 16; j++) {
			char h[3];
			snprintf(h, sizeof h, "%02x", c.bases[i][j]);
			o << h;
		}
		o << "\n";
	}
	for (auto &p : c.ops) {
		o << p.kind << " " << p.fam << " " << p.b << " " << p.len << " " << p.flip << " " << p.maxlen << " "
		  << p.asn << " " << p.src << " " << p.k << " " << p.mode << " " << p.ext << " " << p.tail[0] << " "
		  << p.tail[1] << " " << p.tail[2] << " " << p.tail[3] << "\n";
	}
	return o.str();
}

static Case parse_case(const std::string &t)
{
	Case c;
	std::istringstream in(t);
	std::string l;
	while (std::getline(in, l)) {
		if (l.empty() || l[0] == '#') continue;
		std::istringstream ls(l);
		std::string w;
		ls >> w;
		if (w == "base") {
			int i;
			std::string hex;
			ls >> i >> hex;
			for (int j = 0; j < 16 && (size_t)(2 * j + 1) < hex.size(); j++)
				c.bases[i % 3][j] = (uint8_t)strtoul(hex.substr(2 * j, 2).c_str(), nullptr, 16);
		} else if (w.size() == 1) {
			Op p;
			p.kind = w[0];
			ls >> p.fam >> p.b >> p.len >> p.flip >> p.maxlen >> p.asn >> p.src >> p.k >> p.mode >> p.ext >>
				p.tail[0] >> p.tail[1] >> p.tail[2] >> p.tail[3];
			c.ops.push_back(p);
		}
	}
	return c;
}

// ---------------------------------------------------------------- generators
template <typename T> static rc::Gen<T> rng(T lo, T hi) // inclusive, not size-scaled
{
	return rc::gen::resize(rc::kNominalSize, rc::gen::inRange<T>(lo, (T)(hi + 1)));
}

static rc::Gen<int> genLen(int fam)
{
	int W = pm::width(fam);
	return rc::gen::weightedOneOf<int>({{4, rng<int>(0, W)}, {2, rng<int>(0, 4)}, {2, rng<int>(W - 2, W)}, {1, rc::gen::just(0)}});
}

static rc::Gen<Op> genOp()
{
	using namespace rc;
	auto fam = gen::weightedElement<int>({{3, 0}, {2, 1}});
	auto genAdd = gen::mapcat(fam, [](int f) {
		int W = pm::width(f);
		return gen::apply(
			[f](int b, int len, int flip, int mlmode, int mlr, int asn, int src, int k) {
				Op p;
				p.kind = 'A';
				p.fam = f;
				p.b = b;
				p.len = len;
				p.flip = flip;
				// max-length anywhere in 0..255: mostly >= len, sometimes below, sometimes huge
				if (mlmode <= 5) p.maxlen = std::min(255, len + mlr % (pm::width(f) - len + 1));
				else if (mlmode == 6) p.maxlen = mlr % 256;
				else if (mlmode == 7) p.maxlen = len;
				else p.maxlen = 255;
				p.asn = asn;
				p.src = src;
				p.k = k;
				return p;
			},
			rng<int>(0, 2), genLen(f), gen::weightedElement<int>({{3, 0}, {1, 1}}), rng<int>(0, 8),
			rng<int>(0, 255), rng<int>(0, 5), rng<int>(0, 2),
			// k >= 0: re-add an existing record (duplicate) or a near-duplicate of it (mode in ext)
			gen::weightedOneOf<int>({{5, gen::just(-1)}, {2, rng<int>(0, 400)}}));
	});
	auto genAdd2 = gen::apply(
		[](Op p, int nearfield) {
			p.ext = nearfield; // 0 exact duplicate, 1..5: change one field
			return p;
		},
		genAdd, rng<int>(0, 5));
	auto genRem = gen::apply(
		[](Op p, int k, int near) {
			p.kind = 'R';
			p.k = k;
			p.ext = near;
			return p;
		},
		genAdd, gen::weightedOneOf<int>({{1, gen::just(-1)}, {6, rng<int>(0, 400)}}),
		gen::weightedElement<int>({{5, 0}, {1, 1}, {1, 2}, {1, 3}, {1, 4}, {1, 5}}));
	auto genSrc = gen::map(rng<int>(0, 2), [](int s) {
		Op p;
		p.kind = 'S';
		p.src = s;
		return p;
	});
	auto genQ = gen::mapcat(fam, [](int f) {
		return gen::apply(
			[f](int b, int len, int flip, int mode, int k, int ext, int asn, int asnmode,
			    std::tuple<uint32_t, uint32_t, uint32_t, uint32_t> t) {
				Op p;
				p.kind = 'Q';
				p.fam = f;
				p.b = b;
				p.len = len;
				p.flip = flip;
				p.mode = mode;
				p.k = k;
				p.ext = ext;
				p.asn = asn;
				p.src = asnmode; // reused: 0 = AS from referenced record, 1 = AS from AS_SET[asn]
				p.tail[0] = std::get<0>(t);
				p.tail[1] = std::get<1>(t);
				p.tail[2] = std::get<2>(t);
				p.tail[3] = std::get<3>(t);
				return p;
			},
			rng<int>(0, 2), genLen(f), gen::weightedElement<int>({{3, 0}, {1, 1}}),
			// mode 0 universe, 1 universe+dirty host bits, 2 record lengthened, 3 record shortened,
			// 4 sibling of record, 5 uniformly random, 6 record lengthened + dirty
			gen::weightedElement<int>({{3, 0}, {1, 1}, {5, 2}, {2, 3}, {2, 4}, {1, 5}, {1, 6}}),
			rng<int>(0, 400), gen::weightedOneOf<int>({{3, rng<int>(0, 3)}, {1, rng<int>(0, 128)}}),
			rng<int>(0, 5), rng<int>(0, 1),
			gen::tuple(gen::arbitrary<uint32_t>(), gen::arbitrary<uint32_t>(), gen::arbitrary<uint32_t>(),
				   gen::arbitrary<uint32_t>()));
	});
	auto genChain = gen::apply(
		[](int f, int b, int lo, int span, int order, int src, int asn, int full) {
			Op p;
			p.kind = 'C';
			p.fam = f;
			p.b = b;
			int W = pm::width(f);
			if (full) {
				lo = 0;
				span = W;
			}
			p.len = std::min(lo, W);		    // from
			p.maxlen = std::min(W, p.len + span); // to (inclusive)
			p.mode = order;				    // 0 ascending, 1 descending, 2 inside-out
			p.src = src;
			p.asn = asn;
			return p;
		},
		fam, rng<int>(0, 2), rng<int>(0, 128), rng<int>(2, 128), rng<int>(0, 2), rng<int>(0, 2), rng<int>(0, 5),
		gen::weightedElement<int>({{2, 0}, {1, 1}}));
	auto genFree = gen::just([] {
		Op p;
		p.kind = 'F';
		return p;
	}());
	auto genReload = gen::apply(
		[](Op p, int keep, int n) {
			p.kind = 'W';
			p.mode = keep; // keep every (keep+1)-th old record of the source (0: all, 5: none)
			p.ext = n;     // number of new records
			return p;
		},
		genAdd, rng<int>(0, 5), rng<int>(0, 6));
	return gen::weightedOneOf<Op>({{36, genAdd2}, {20, genRem}, {4, genSrc}, {34, genQ}, {4, genChain}, {1, genFree}, {4, genReload}});
}

static rc::Gen<Case> genCase()
{
	using namespace rc;
	auto genBase = gen::apply(
		[](std::vector<uint8_t> v, int shape) {
			std::array<uint8_t, 16> a{};
			for (int i = 0; i < 16; i++) a[i] = v[i];
			if (shape == 1) a.fill(0);
			if (shape == 2) a.fill(0xff);
			return a;
		},
		gen::container<std::vector<uint8_t>>(16, gen::arbitrary<uint8_t>()),
		gen::weightedElement<int>({{6, 0}, {1, 1}, {1, 2}}));
	return gen::apply(
		[](std::array<uint8_t, 16> b0, std::array<uint8_t, 16> b1, std::array<uint8_t, 16> b2,
		   std::vector<Op> ops) {
			Case c;
			c.bases = {b0, b1, b2};
			c.ops = std::move(ops);
			return c;
		},
		genBase, genBase, genBase, gen::container<std::vector<Op>>(genOp()));
}

// ---------------------------------------------------------------- execution
struct Ctx {
	std::set<Rec> mirror;
	bool mirror_bad = false;
	std::string mirror_msg;
	struct pfx_table *live = nullptr;
	std::vector<std::pair<Rec, bool>> events; // every callback in order (cleared by the reload op: net-difference oracle)
};
static Ctx *g_ctx;

static int src_index(const struct rtr_socket *s)
{
	for (int i = 0; i < 4; i++)
		if (s == &g_socks[i]) return i;
	return -1;
}

static Rec from_lib(const struct pfx_record *r)
{
	Rec m;
	m.fam = r->prefix.ver == LRTR_IPV4 ? 0 : 1;
	if (m.fam == 0) {
		uint32_t x = r->prefix.u.addr4.addr;
		m.a[0] = x >> 24;
		m.a[1] = x >> 16;
		m.a[2] = x >> 8;
		m.a[3] = x;
	} else
		for (int i = 0; i < 4; i++) {
			uint32_t x = r->prefix.u.addr6.addr[i];
			m.a[4 * i] = x >> 24;
			m.a[4 * i + 1] = x >> 16;
			m.a[4 * i + 2] = x >> 8;
			m.a[4 * i + 3] = x;
		}
	m.len = r->min_len;
	m.maxlen = r->max_len;
	m.asn = r->asn;
	m.src = src_index(r->socket);
	return m;
}

static struct lrtr_ip_addr to_addr(int fam, const std::array<uint8_t, 16> &a)
{
	struct lrtr_ip_addr ip;
	memset(&ip, 0, sizeof ip);
	if (fam == 0) {
		ip.ver = LRTR_IPV4;
		ip.u.addr4.addr = ((uint32_t)a[0] << 24) | (a[1] << 16) | (a[2] << 8) | a[3];
	} else {
		ip.ver = LRTR_IPV6;
		for (int i = 0; i < 4; i++)
			ip.u.addr6.addr[i] = ((uint32_t)a[4 * i] << 24) | (a[4 * i + 1] << 16) | (a[4 * i + 2] << 8) | a[4 * i + 3];
	}
	return ip;
}

static struct pfx_record to_lib(const Rec &m)
{
	struct pfx_record r;
	memset(&r, 0, sizeof r);
	r.asn = m.asn;
	r.prefix = to_addr(m.fam, m.a);
	r.min_len = m.len;
	r.max_len = m.maxlen;
	r.socket = &g_socks[m.src];
	return r;
}

static void update_cb(struct pfx_table *t, const struct pfx_record rec, const bool added)
{
	Ctx *c = g_ctx;
	if (!c || t != c->live) return;
	Rec m = from_lib(&rec);
	c->events.push_back({m, added});
	if (added) {
		if (!c->mirror.insert(m).second && !c->mirror_bad) {
			c->mirror_bad = true;
			c->mirror_msg = "callback 'added' for a record the log already holds: " + m.str();
		}
	} else {
		if (!c->mirror.erase(m) && !c->mirror_bad) {
			c->mirror_bad = true;
			c->mirror_msg = "callback 'removed' for a record the log does not hold: " + m.str();
		}
	}
}

static void enum_cb(const struct pfx_record *r, void *data)
{
	((std::vector<Rec> *)data)->push_back(from_lib(r));
}

static std::array<uint8_t, 16> universe_addr(const Case &c, int fam, int b, int len, int flip)
{
	auto a = pm::masked(c.bases[b % 3], fam, len);
	if (flip && len > 0) a[(len - 1) / 8] ^= (uint8_t)(1u << (7 - (len - 1) % 8));
	return a;
}

static std::array<uint8_t, 16> apply_tail(std::array<uint8_t, 16> a, int fam, int from, const uint32_t tail[4])
{
	int W = pm::width(fam);
	for (int i = from; i < W; i++) {
		bool bitv = (tail[i / 32] >> (31 - i % 32)) & 1;
		if (bitv) a[i / 8] |= (uint8_t)(1u << (7 - i % 8));
		else a[i / 8] &= ~(uint8_t)(1u << (7 - i % 8));
	}
	return a;
}

static const Rec *kth(const pm::Table &t, int k)
{
	if (k < 0 || t.s.empty()) return nullptr;
	auto it = t.s.begin();
	std::advance(it, k % t.s.size());
	return &*it;
}

static Rec near_miss(Rec r, int field)
{
	switch (field) {
	case 1: r.maxlen = (uint8_t)(r.maxlen + 1); break;
	case 2: r.asn = r.asn + 1; break;
	case 3: r.src = (r.src + 1) % 3; break;
	case 4: // sibling prefix of the same length
		if (r.len > 0) r.a[(r.len - 1) / 8] ^= (uint8_t)(1u << (7 - (r.len - 1) % 8));
		else r.maxlen ^= 1;
		break;
	case 5: // shorter prefix (parent)
		if (r.len > 0) {
			r.len--;
			r.a = pm::masked(r.a, r.fam, r.len);
		} else
			r.asn ^= 1;
		break;
	default: break;
	}
	return r;
}

struct RunInfo {
	bool had_removal = false, pullup = false, src_partial = false, src_multi_node = false, free_multi = false;
	int queries = 0;
	uint64_t table_hash = 0;
};

static std::string set_diff(const std::vector<Rec> &lib, const std::set<Rec> &model)
{
	std::multiset<Rec> l(lib.begin(), lib.end());
	std::ostringstream o;
	int n = 0;
	for (auto &r : model)
		if (!l.count(r) && n++ < 4) o << " missing{" << r.str() << "}";
	for (auto &r : l)
		if (!model.count(r) && n++ < 4) o << " invented{" << r.str() << "}";
	for (auto &r : model)
		if (l.count(r) > 1 && n++ < 4) o << " duplicated{" << r.str() << "}";
	return o.str();
}

// Runs one case with every oracle; returns the first failure.  `st` may be null (replay).
static vf::Result run_case(const Case &c, vf::Stats *st, RunInfo *info_out = nullptr)
{
	pm::Table model;
	Ctx ctx;
	g_ctx = &ctx;
	struct pfx_table tab;
	pfx_table_init(&tab, update_cb);
	ctx.live = &tab;
	struct rtr_mgr_config cfg;
	memset(&cfg, 0, sizeof cfg);
	cfg.pfx_table = &tab;
	RunInfo info;
	vf::Result res;
	auto FAIL = [&](const std::string &sig, const std::string &what) {
		if (res.ok) res = vf::Result::fail(sig, what);
	};

	auto check_contents = [&](const char *after) {
		std::vector<Rec> v;
		pfx_table_for_each_ipv4_record(&tab, enum_cb, &v);
		size_t n4 = v.size();
		pfx_table_for_each_ipv6_record(&tab, enum_cb, &v);
		for (size_t i = 0; i < v.size(); i++)
			if ((i < n4) != (v[i].fam == 0)) FAIL("C02:enum-family", std::string("enumeration yields a record of the other family after ") + after);
		std::vector<Rec> sorted = v;
		std::sort(sorted.begin(), sorted.end());
		std::vector<Rec> want(model.s.begin(), model.s.end());
		if (sorted != want)
			FAIL("C02:contents", std::string("table contents differ from the model set after ") + after + ":" + set_diff(v, model.s));
		if (ctx.mirror_bad) FAIL("C09:spurious-callback", ctx.mirror_msg + " (after " + after + ")");
		else if (ctx.mirror != model.s) {
			std::vector<Rec> mv(ctx.mirror.begin(), ctx.mirror.end());
			FAIL("C09:log-mismatch", std::string("replaying the callbacks does not give the table contents after ") + after + ":" + set_diff(mv, model.s));
		}
	};

	auto do_add = [&](const Rec &r, const char *what) {
		int want = model.add(r);
		struct pfx_record lr = to_lib(r);
		int got = pfx_table_add(&tab, &lr);
		if (got != want) FAIL("C02:add-rc", std::string(what) + " " + r.str() + " returned " + std::to_string(got) + ", model says " + std::to_string(want));
	};

	// the reason array of one query is handed to the next one in half of the cases (the API re-uses / re-sizes the caller's array)
	struct pfx_record *carry = nullptr;
	unsigned int carry_len = 0;
	for (size_t oi = 0; oi < c.ops.size() && res.ok; oi++) {
		const Op &p = c.ops[oi];
		std::string tag = "op#" + std::to_string(oi) + " " + p.kind;
		switch (p.kind) {
		case 'A': {
			Rec r;
			const Rec *ref = kth(model, p.k);
			if (ref) r = near_miss(*ref, p.ext);
			else {
				r.fam = p.fam ? 1 : 0;
				int W = pm::width(r.fam);
				r.len = std::min(std::max(p.len, 0), W);
				r.a = universe_addr(c, r.fam, p.b, r.len, p.flip);
				r.maxlen = (uint8_t)p.maxlen;
				r.asn = AS_SET[(unsigned)p.asn % 6];
				r.src = (unsigned)p.src % 3;
			}
			if (st) st->cls(ref ? (p.ext == 0 ? "add-duplicate" : "add-near-duplicate") : "add");
			do_add(r, "add");
			check_contents(tag.c_str());
			break;
		}
		case 'R': {
			Rec r;
			const Rec *ref = kth(model, p.k);
			if (ref) r = near_miss(*ref, p.ext);
			else {
				r.fam = p.fam ? 1 : 0;
				int W = pm::width(r.fam);
				r.len = std::min(std::max(p.len, 0), W);
				r.a = universe_addr(c, r.fam, p.b, r.len, p.flip);
				r.maxlen = (uint8_t)p.maxlen;
				r.asn = AS_SET[(unsigned)p.asn % 6];
				r.src = (unsigned)p.src % 3;
			}
			// pull-up expected: last record of its prefix, and the prefix covers another stored prefix
			bool present = model.s.count(r);
			if (present) {
				int same = 0, below = 0;
				for (auto &x : model.s) {
					if (x.fam != r.fam) continue;
					if (x.len == r.len && x.a == r.a) same++;
					else if (x.len > r.len && pm::same_prefix(x.a, r.a, r.len)) below++;
				}
				if (same == 1 && below > 0) info.pullup = true;
				info.had_removal = true;
			}
			if (st) st->cls(present ? "remove-present" : (ref ? "remove-near-miss" : "remove-absent"));
			int want = model.remove(r);
			struct pfx_record lr = to_lib(r);
			int got = pfx_table_remove(&tab, &lr);
			if (got != want) FAIL("C02:remove-rc", "remove " + r.str() + " returned " + std::to_string(got) + ", model says " + std::to_string(want));
			check_contents(tag.c_str());
			break;
		}
		case 'S': {
			int s = (unsigned)p.src % 3;
			auto mine = model.by_src(s);
			std::set<std::pair<int, std::pair<std::array<uint8_t, 16>, int>>> nodes;
			for (auto &x : mine) nodes.insert({x.fam, {x.a, x.len}});
			bool keeps_same_fam = false;
			for (auto &x : model.s)
				if (x.src != s)
					for (auto &y : mine)
						if (y.fam == x.fam) keeps_same_fam = true;
			if (!mine.empty()) info.had_removal = true;
			if (!mine.empty() && keeps_same_fam) info.src_partial = true;
			if (nodes.size() >= 2) info.src_multi_node = true;
			if (st) st->cls(mine.empty() ? "src_remove-empty" : "src_remove-hit");
			model.src_remove(s);
			int got = pfx_table_src_remove(&tab, &g_socks[s]);
			if (got != 0) FAIL("C02:src-remove-rc", "src_remove returned " + std::to_string(got));
			check_contents(tag.c_str());
			break;
		}
		case 'C': {
			int f = p.fam ? 1 : 0, W = pm::width(f);
			int lo = std::min(std::max(p.len, 0), W), hi = std::min(std::max(p.maxlen, lo), W);
			std::vector<int> lens;
			for (int l = lo; l <= hi; l++) lens.push_back(l);
			if (p.mode == 1) std::reverse(lens.begin(), lens.end());
			if (p.mode == 2) { // inside-out: middle first, alternating
				std::vector<int> t;
				int mid = (int)lens.size() / 2;
				for (int d = 0; d <= (int)lens.size(); d++) {
					if (mid + d < (int)lens.size()) t.push_back(lens[mid + d]);
					if (d > 0 && mid - d >= 0) t.push_back(lens[mid - d]);
				}
				lens = t;
			}
			if (st) st->cls(lens.size() >= (size_t)W ? "chain-full-depth" : "chain");
			for (int l : lens) {
				Rec r;
				r.fam = f;
				r.len = l;
				r.a = universe_addr(c, f, p.b, l, 0);
				r.maxlen = W;
				r.asn = AS_SET[(unsigned)p.asn % 6];
				r.src = (unsigned)p.src % 3;
				do_add(r, "chain-add");
				if (!res.ok) break;
			}
			check_contents(tag.c_str());
			break;
		}
		case 'W': { // the reload sequence of rtr_sync: everybody else's records copied aside, new set loaded, swap, diff
			int sidx = (unsigned)p.src % 3;
			if (st) st->cls("reload(copy+swap+diff)");
			struct pfx_table sh;
			pfx_table_init(&sh, nullptr);
			int rc = pfx_table_copy_except_socket(&tab, &sh, &g_socks[sidx]);
			if (rc != 0) FAIL("C02:copy-rc", "pfx_table_copy_except_socket returned " + std::to_string(rc));
			pm::Table m2 = model;
			m2.src_remove(sidx);
			std::vector<Rec> old_mine;
			for (auto &r : model.s) if (r.src == sidx) old_mine.push_back(r);
			auto shadow_add = [&](const Rec &r) {
				int want = m2.add(r);
				struct pfx_record lr = to_lib(r);
				int got = pfx_table_add(&sh, &lr);
				if (got != want) FAIL("C02:add-rc", "add to the shadow table " + r.str() + " returned " + std::to_string(got) + ", model says " + std::to_string(want));
			};
			int i = 0;
			for (auto &r : old_mine) if (p.mode < 5 && i++ % (p.mode + 1) == 0) shadow_add(r);
			for (int j = 0; j < p.ext % 7 && res.ok; j++) {
				Rec r;
				r.fam = (p.fam + j) & 1;
				int W = pm::width(r.fam);
				r.len = std::min(std::max(p.len + 3 * j, 0), W);
				r.a = universe_addr(c, r.fam, p.b + j, r.len, p.flip);
				r.maxlen = (uint8_t)std::max<int>(r.len, std::min<int>(W, p.maxlen));
				r.asn = AS_SET[(unsigned)(p.asn + j) % 6];
				r.src = sidx;
				shadow_add(r);
			}
			if (!res.ok) { pfx_table_free_without_notify(&sh); break; }
			if (ctx.mirror_bad) { FAIL("C09:spurious-callback", ctx.mirror_msg + " (before the reload of " + tag + ")"); pfx_table_free_without_notify(&sh); break; }
			ctx.events.clear();
			pfx_table_swap(&tab, &sh);
			pfx_table_notify_diff(&tab, &sh, &g_socks[sidx]);
			// C09: "an atomic reload (where only the net difference for the reloading cache is reported)": one 'added' per record of
			// new \ old, one 'removed' per record of old \ new, nothing else
			{
				std::multiset<std::pair<Rec, bool>> got(ctx.events.begin(), ctx.events.end()), want;
				for (auto &r : m2.s) if (!model.s.count(r)) want.insert({r, true});
				for (auto &r : model.s) if (!m2.s.count(r)) want.insert({r, false});
				if (got != want) {
					std::ostringstream o;
					int n = 0;
					for (auto &e : got) if (got.count(e) > want.count(e) && n++ < 4) o << " surplus{" << (e.second ? "added " : "removed ") << e.first.str() << "}";
					for (auto &e : want) if (!got.count(e) && n++ < 4) o << " missing{" << (e.second ? "added " : "removed ") << e.first.str() << "}";
					FAIL("C09:reload-not-net-difference", "the callbacks of an atomic reload (" + std::to_string(got.size()) + ") are not the net difference (" + std::to_string(want.size()) + " changes):" + o.str());
				}
				if (st && !want.empty() && want.size() < m2.s.size()) st->cls("reload-with-unchanged-and-changed-records");
			}
			model = m2;
			pfx_table_free_without_notify(&sh);
			check_contents(tag.c_str());
			break;
		}
		case 'F': {
			if (model.s.size() >= 2) info.free_multi = true;
			if (st) st->cls("free");
			pfx_table_free(&tab);
			model.s.clear();
			if (ctx.mirror_bad) FAIL("C09:spurious-callback", ctx.mirror_msg + " (during pfx_table_free)");
			else if (!ctx.mirror.empty())
				FAIL("C09:free-not-logged", "after pfx_table_free the callback log still holds " + std::to_string(ctx.mirror.size()) + " record(s), e.g. " + ctx.mirror.begin()->str());
			pfx_table_init(&tab, update_cb);
			check_contents(tag.c_str());
			break;
		}
		case 'Q': {
			int f = p.fam ? 1 : 0;
			int W;
			std::array<uint8_t, 16> addr{};
			int len = 0;
			uint32_t asn = AS_SET[(unsigned)p.asn % 6];
			const Rec *ref = kth(model, p.k);
			int mode = p.mode;
			if (!ref && (mode == 2 || mode == 3 || mode == 4 || mode == 6)) mode = 0;
			if (ref && (mode == 2 || mode == 3 || mode == 4 || mode == 6)) {
				f = ref->fam;
				W = pm::width(f);
				if (p.src == 0) asn = ref->asn;
				if (mode == 2 || mode == 6) {
					len = std::min(W, ref->len + std::max(0, p.ext));
					addr = apply_tail(ref->a, f, ref->len, p.tail);
					if (mode == 2) addr = pm::masked(addr, f, len);
				} else if (mode == 3) {
					len = std::max(0, ref->len - std::max(0, p.ext));
					addr = pm::masked(ref->a, f, len);
				} else {
					len = ref->len;
					addr = ref->a;
					if (len > 0) addr[(len - 1) / 8] ^= (uint8_t)(1u << (7 - (len - 1) % 8));
				}
			} else {
				W = pm::width(f);
				len = std::min(std::max(p.len, 0), W);
				if (mode == 5) addr = pm::masked(apply_tail(addr, f, 0, p.tail), f, len);
				else {
					addr = universe_addr(c, f, p.b, len, p.flip);
					if (mode == 1) addr = apply_tail(addr, f, len, p.tail);
				}
			}
			if (f == 0)
				for (int i = 4; i < 16; i++) addr[i] = 0;
			struct lrtr_ip_addr ip = to_addr(f, addr);
			pm::State want = model.validate(asn, f, addr, len);
			auto cov = model.covering(f, addr, len);
			info.queries++;
			if (st) {
				st->cls(want == pm::VALID ? "q-valid" : want == pm::INVALID ? "q-invalid" : "q-notfound");
				std::set<int> lv;
				for (auto &x : cov) lv.insert(x.len);
				if (lv.size() >= 3) st->cls("q-covering>=3-levels");
				if (!cov.empty() && info.had_removal) {
					uint64_t h = 0;
					for (auto &x : model.s) h = vf::fnv1a(x.str(), h ? h : 1469598103934665603ULL);
					char q[96];
					snprintf(q, sizeof q, "|%d|%u|%d|", f, asn, len);
					h = vf::fnv1a(q, strlen(q), h);
					h = vf::fnv1a(addr.data(), 16, h);
					if (st->args.prop == "C01") st->nontriv(h);
				}
			}
			enum pfxv_state r1 = (enum pfxv_state)99, r2 = (enum pfxv_state)99, r3 = (enum pfxv_state)99;
			struct pfx_record *reason = nullptr;
			unsigned int rlen = 0;
			if ((p.tail[0] & 1) && carry) { reason = carry; rlen = carry_len; carry = nullptr; carry_len = 0; if (st) st->cls("q-with-reused-reason-array"); }
			int rc1 = pfx_table_validate(&tab, asn, &ip, len, &r1);
			int rc2 = pfx_table_validate_r(&tab, &reason, &rlen, asn, &ip, len, &r2);
			int rc3 = rtr_mgr_validate(&cfg, asn, &ip, len, &r3);
			std::string qs = "validate(AS" + std::to_string(asn) + ", " + Rec{f, addr, (uint8_t)len, 0, 0, 0}.str() + ")";
			if (rc1 != 0 || rc2 != 0 || rc3 != 0) FAIL("C01:validate-rc", qs + " returned an error code");
			else if ((int)r1 != (int)want || (int)r2 != (int)want || (int)r3 != (int)want)
				FAIL("C01:state", qs + " = " + std::to_string(r1) + "/" + std::to_string(r2) + "/" + std::to_string(r3) + " (validate/validate_r/mgr), RFC 6811 by linear scan says " + std::to_string(want) + " [0 VALID,1 NOT_FOUND,2 INVALID]; covering=" + std::to_string(cov.size()));
			else {
				std::vector<Rec> rs;
				for (unsigned i = 0; i < rlen; i++) rs.push_back(from_lib(&reason[i]));
				std::multiset<Rec> rms(rs.begin(), rs.end());
				std::multiset<Rec> cms(cov.begin(), cov.end());
				if (want == pm::NOT_FOUND) {
					if (rlen != 0 || reason != nullptr) FAIL("C01:reason-notfound", qs + " NOT_FOUND but " + std::to_string(rlen) + " reason record(s) returned");
				} else if (want == pm::INVALID) {
					if (rms != cms) FAIL("C01:reason-invalid", qs + " INVALID: reasons are not exactly the covering records (" + std::to_string(rlen) + " vs " + std::to_string(cov.size()) + ")");
				} else {
					bool sub = true, hasmatch = false;
					for (auto &x : rs) {
						if (rms.count(x) > cms.count(x)) sub = false;
						if (pm::Table::matches(x, asn, len)) hasmatch = true;
					}
					if (!sub) FAIL("C01:reason-valid-subset", qs + " VALID: a reason record is not a covering record (or repeated)");
					else if (!hasmatch) FAIL("C01:reason-valid-match", qs + " VALID: no matching record among the reasons");
				}
			}
			free(carry);
			carry = reason;
			carry_len = rlen;
			break;
		}
		default: break;
		}
	}
	// destruction: every remaining record must be reported as removed
	free(carry);
	pfx_table_free(&tab);
	if (res.ok) {
		if (ctx.mirror_bad) FAIL("C09:spurious-callback", ctx.mirror_msg + " (final pfx_table_free)");
		else if (!ctx.mirror.empty()) FAIL("C09:free-not-logged", "after the final pfx_table_free the callback log still holds " + std::to_string(ctx.mirror.size()) + " record(s)");
	}
	g_ctx = nullptr;
	if (info_out) *info_out = info;
	return res;
}

int main(int argc, char **argv)
{
	vf::Args args = vf::parse_args(argc, argv);
	if (args.prop.empty()) args.prop = "C02";
	if (!args.replay.empty())
		return vf::replay_main(args, [&](const std::string &body) {
			vf::Result r = run_case(parse_case(body), nullptr);
			if (!r.ok && r.sig.compare(0, 3, args.prop) != 0) {
				printf("note: failure belongs to %s\n", r.sig.c_str());
			}
			return r;
		});
	vf::Stats st(args);
	double t0 = vf::now_s();
	bool ok = rc::check("pfx_table vs model (" + args.prop + ")", [&]() {
		Case c = *genCase();
		std::string text = case_text(c);
		st.current_case(text);
		RunInfo info;
		vf::Result r = run_case(c, &st, &info);
		st.evaluations++;
		bool mine = r.ok || r.sig.compare(0, 3, args.prop) == 0;
		if (!r.ok && !mine) {
			st.cls("case-cut-short-by-other-property-failure");
			return;
		}
		if (info.pullup) st.cls("history-with-pull-up");
		if (info.src_partial) st.cls("history-with-partial-src_remove");
		if (info.src_multi_node) st.cls("history-with-src_remove-over>=2-nodes");
		bool nt = false;
		if (args.prop == "C02") nt = info.pullup || info.src_partial;
		if (args.prop == "C09") nt = info.src_multi_node || info.free_multi || info.pullup;
		if (nt) st.nontriv(vf::fnv1a(text));
		if (args.prop == "C01" ? info.queries > 0 && info.had_removal : nt) st.sample(text.size() > 700 ? text.substr(0, 700) + "...(truncated)" : text);
		if (!r.ok && st.on_failure(text, r)) RC_FAIL(r.sig + ": " + r.what);
	});
	(void)ok;
	st.write(vf::now_s() - t0);
	return 0;
}
