// Reference model of the router-key table: a std::set of (asn, ski, spki, source).
#pragma once
#include <array>
#include <cstdint>
#include <cstdio>
#include <set>
#include <string>
#include <tuple>
#include <vector>

namespace sm {
struct Key {
	uint32_t asn = 0;
	std::array<uint8_t, 20> ski{};
	std::array<uint8_t, 91> spki{};
	int src = 0;
	auto key() const { return std::tie(asn, ski, spki, src); }
	bool operator<(const Key &o) const { return key() < o.key(); }
	bool operator==(const Key &o) const { return key() == o.key(); }
	std::string str() const
	{
		char b[96];
		snprintf(b, sizeof b, "AS%u ski=%02x%02x.. spki=%02x%02x..%02x src%d", asn, ski[0], ski[1], spki[0], spki[1], spki[90], src);
		return b;
	}
};
struct Table {
	std::set<Key> s;
	int add(const Key &k) { return s.insert(k).second ? 0 : -2; }
	int remove(const Key &k) { return s.erase(k) ? 0 : -3; }
	size_t src_remove(int src)
	{
		size_t n = 0;
		for (auto it = s.begin(); it != s.end();)
			if (it->src == src) { it = s.erase(it); n++; } else ++it;
		return n;
	}
	std::vector<Key> get_all(uint32_t asn, const std::array<uint8_t, 20> &ski) const
	{
		std::vector<Key> v;
		for (auto &k : s) if (k.asn == asn && k.ski == ski) v.push_back(k);
		return v;
	}
	std::vector<Key> by_ski(const std::array<uint8_t, 20> &ski) const
	{
		std::vector<Key> v;
		for (auto &k : s) if (k.ski == ski) v.push_back(k);
		return v;
	}
};
} // namespace sm
