// Independent rendering of the RFC 8205 section 4.2 signing digest and of ECDSA-P256/SHA-256
// signing / verification through OpenSSL's EVP interface.  Built from the harness's own path
// representation, never from struct rtr_bgpsec.
#pragma once
#include <array>
#include <cstdint>
#include <cstring>
#include <openssl/ec.h>
#include <openssl/evp.h>
#include <openssl/x509.h>
#include <string>
#include <vector>

namespace b8205 {
typedef std::vector<uint8_t> Bytes;

struct KeyPair {
	EVP_PKEY *pkey = nullptr;
	Bytes spki;    // DER SubjectPublicKeyInfo (91 bytes for P-256)
	Bytes privder; // DER ECPrivateKey (121 bytes)
	std::array<uint8_t, 20> ski{};
};

inline KeyPair gen_key(int ski_tag)
{
	KeyPair k;
	EC_KEY *ec = EC_KEY_new_by_curve_name(NID_X9_62_prime256v1);
	EC_KEY_set_asn1_flag(ec, OPENSSL_EC_NAMED_CURVE);
	EC_KEY_generate_key(ec);
	unsigned char *p = nullptr;
	int n = i2d_EC_PUBKEY(ec, &p);
	k.spki.assign(p, p + n);
	OPENSSL_free(p);
	p = nullptr;
	n = i2d_ECPrivateKey(ec, &p);
	k.privder.assign(p, p + n);
	OPENSSL_free(p);
	k.pkey = EVP_PKEY_new();
	EVP_PKEY_assign_EC_KEY(k.pkey, ec);
	for (int i = 0; i < 20; i++) k.ski[i] = (uint8_t)(0x30 + ski_tag * 7 + i);
	return k;
}

struct Hop {
	uint8_t pcount = 1, flags = 0;
	uint32_t asn = 0;
	std::array<uint8_t, 20> ski{};
	Bytes sig;
};

struct Update {
	std::vector<Hop> hops; // oldest (origin) first
	uint32_t target_as = 0; // AS the newest hop sends to
	uint8_t alg = 1;
	uint16_t afi = 1;
	uint8_t safi = 1;
	uint8_t nlri_len = 0;
	Bytes nlri; // ceil(nlri_len / 8) bytes
};

inline void put32(Bytes &b, uint32_t v) { b.push_back(v >> 24); b.push_back(v >> 16); b.push_back(v >> 8); b.push_back(v); }
inline void put16(Bytes &b, uint16_t v) { b.push_back(v >> 8); b.push_back(v & 0xff); }

// octets signed by hop k (0-based, 0 = origin): RFC 8205 Figure 8 with N = k + 1
inline Bytes digest_input(const Update &u, size_t k)
{
	Bytes b;
	uint32_t target = (k + 1 < u.hops.size()) ? u.hops[k + 1].asn : u.target_as;
	put32(b, target);
	for (size_t j = k; j >= 1; j--) {
		const Hop &prev = u.hops[j - 1];
		b.insert(b.end(), prev.ski.begin(), prev.ski.end());
		put16(b, (uint16_t)prev.sig.size());
		b.insert(b.end(), prev.sig.begin(), prev.sig.end());
		const Hop &h = u.hops[j];
		b.push_back(h.pcount);
		b.push_back(h.flags);
		put32(b, h.asn);
	}
	const Hop &o = u.hops[0];
	b.push_back(o.pcount);
	b.push_back(o.flags);
	put32(b, o.asn);
	b.push_back(u.alg);
	put16(b, u.afi);
	b.push_back(u.safi);
	b.push_back(u.nlri_len);
	b.insert(b.end(), u.nlri.begin(), u.nlri.end());
	return b;
}

inline Bytes evp_sign(EVP_PKEY *key, const Bytes &msg)
{
	EVP_MD_CTX *c = EVP_MD_CTX_new();
	Bytes sig;
	size_t n = 0;
	if (EVP_DigestSignInit(c, nullptr, EVP_sha256(), nullptr, key) == 1 && EVP_DigestSign(c, nullptr, &n, msg.data(), msg.size()) == 1) {
		sig.resize(n);
		if (EVP_DigestSign(c, sig.data(), &n, msg.data(), msg.size()) == 1) sig.resize(n);
		else sig.clear();
	}
	EVP_MD_CTX_free(c);
	return sig;
}

// verify with a public key given as DER SubjectPublicKeyInfo; false if the key does not load
inline bool evp_verify_spki(const uint8_t *spki, size_t spki_len, const Bytes &msg, const Bytes &sig)
{
	const unsigned char *p = spki;
	EVP_PKEY *k = d2i_PUBKEY(nullptr, &p, (long)spki_len);
	if (!k) return false;
	EVP_MD_CTX *c = EVP_MD_CTX_new();
	bool ok = EVP_DigestVerifyInit(c, nullptr, EVP_sha256(), nullptr, k) == 1 && EVP_DigestVerify(c, sig.data(), sig.size(), msg.data(), msg.size()) == 1;
	EVP_MD_CTX_free(c);
	EVP_PKEY_free(k);
	return ok;
}

} // namespace b8205
