// Reference model of the prefix table: a std::set of records and RFC 6811 by linear scan.
// Written from the sentences of properties C01/C02 only; shares no code with rtrlib
// (bit tests are done on big-endian byte arrays, not with lrtr_get_bits).
#pragma once
#include <algorithm>
#include <array>
#include <cstdint>
#include <cstdio>
#include <set>
#include <string>
#include <tuple>
#include <vector>

namespace pm {

struct Rec {
	int fam = 0;			 // 0 = IPv4, 1 = IPv6
	std::array<uint8_t, 16> a{}; // network order; IPv4 uses a[0..3]
	uint8_t len = 0, maxlen = 0;
	uint32_t asn = 0;
	int src = 0;
	auto key() const { return std::tie(fam, a, len, maxlen, asn, src); }
	bool operator<(const Rec &o) const { return key() < o.key(); }
	bool operator==(const Rec &o) const { return key() == o.key(); }
	std::string str() const
	{
		char b[128];
		if (fam == 0)
			snprintf(b, sizeof b, "%u.%u.%u.%u/%u-%u AS%u src%d", a[0], a[1], a[2], a[3], len, maxlen, asn,
				 src);
		else {
			char h[40];
			for (int i = 0; i < 16; i++)
				snprintf(h + 2 * i, 3, "%02x", a[i]);
			snprintf(b, sizeof b, "v6:%s/%u-%u AS%u src%d", h, len, maxlen, asn, src);
		}
		return b;
	}
};

inline int width(int fam) { return fam == 0 ? 32 : 128; }

inline bool bit(const std::array<uint8_t, 16> &a, int i) { return (a[i / 8] >> (7 - i % 8)) & 1; }

// first n bits of x and y equal
inline bool same_prefix(const std::array<uint8_t, 16> &x, const std::array<uint8_t, 16> &y, int n)
{
	for (int i = 0; i < n; i++)
		if (bit(x, i) != bit(y, i)) return false;
	return true;
}

inline std::array<uint8_t, 16> masked(std::array<uint8_t, 16> a, int fam, int len)
{
	for (int i = len; i < 128; i++)
		a[i / 8] &= ~(uint8_t)(1u << (7 - i % 8));
	if (fam == 0)
		for (int i = 4; i < 16; i++) a[i] = 0;
	return a;
}

enum State { VALID = 0, NOT_FOUND = 1, INVALID = 2 }; // same numbering as enum pfxv_state

struct Table {
	std::set<Rec> s;
	// returns 0 success, -2 duplicate
	int add(const Rec &r) { return s.insert(r).second ? 0 : -2; }
	// returns 0 success, -3 not found
	int remove(const Rec &r) { return s.erase(r) ? 0 : -3; }
	size_t src_remove(int src)
	{
		size_t n = 0;
		for (auto it = s.begin(); it != s.end();)
			if (it->src == src) {
				it = s.erase(it);
				n++;
			} else
				++it;
		return n;
	}
	// record r covers route (fam, addr, len): r.len <= len and equal leading r.len bits
	static bool covers(const Rec &r, int fam, const std::array<uint8_t, 16> &addr, int len)
	{
		return r.fam == fam && r.len <= len && same_prefix(r.a, addr, r.len);
	}
	std::vector<Rec> covering(int fam, const std::array<uint8_t, 16> &addr, int len) const
	{
		std::vector<Rec> v;
		for (auto &r : s)
			if (covers(r, fam, addr, len)) v.push_back(r);
		return v;
	}
	static bool matches(const Rec &r, uint32_t asn, int len) { return r.asn != 0 && r.asn == asn && len <= r.maxlen; }
	State validate(uint32_t asn, int fam, const std::array<uint8_t, 16> &addr, int len) const
	{
		bool any = false;
		for (auto &r : s)
			if (covers(r, fam, addr, len)) {
				any = true;
				if (matches(r, asn, len)) return VALID;
			}
		return any ? INVALID : NOT_FOUND;
	}
	std::vector<Rec> by_src(int src) const
	{
		std::vector<Rec> v;
		for (auto &r : s)
			if (r.src == src) v.push_back(r);
		return v;
	}
};

} // namespace pm
