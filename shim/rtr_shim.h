/* What C++ harnesses may see of rtrlib's private API.  Private headers are C-only
 * (rtr_private.h has `static const uint8_t X;` without initialiser), so the
 * prototypes are repeated here and the few things that need private struct
 * layouts live in shim.c (compiled as C against the real headers, where a
 * prototype mismatch is a compile error: shim.c includes both). */
#ifndef VERIF_RTR_SHIM_H
#define VERIF_RTR_SHIM_H
#ifdef __cplusplus
extern "C" {
#endif
#include "rtrlib/lib/ip.h"
#include "rtrlib/pfx/pfx.h"
#include "rtrlib/spki/spkitable.h"
#include "rtrlib/rtr/rtr.h"
#include "rtrlib/transport/transport.h"
#include <stddef.h>

/* ---- pfx private ---- */
void pfx_table_free_without_notify(struct pfx_table *pfx_table);
void pfx_table_swap(struct pfx_table *a, struct pfx_table *b);
int pfx_table_copy_except_socket(struct pfx_table *src_table, struct pfx_table *dst_table,
				 const struct rtr_socket *socket);
void pfx_table_notify_diff(struct pfx_table *new_table, struct pfx_table *old_table, const struct rtr_socket *socket);

/* ---- spki private ---- */
#ifndef RTR_SPKI_PRIVATE_H
enum spki_rtvals { SPKI_SUCCESS = 0, SPKI_ERROR = -1, SPKI_DUPLICATE_RECORD = -2, SPKI_RECORD_NOT_FOUND = -3 };
int spki_table_init(struct spki_table *spki_table, spki_update_fp update_fp);
void spki_table_free(struct spki_table *spki_table);
void spki_table_free_without_notify(struct spki_table *spki_table);
int spki_table_add_entry(struct spki_table *spki_table, struct spki_record *spki_record);
int spki_table_get_all(struct spki_table *spki_table, uint32_t asn, uint8_t *ski, struct spki_record **result,
		       unsigned int *result_size);
int spki_table_search_by_ski(struct spki_table *spki_table, uint8_t *ski, struct spki_record **result,
			     unsigned int *result_size);
int spki_table_remove_entry(struct spki_table *spki_table, struct spki_record *spki_record);
int spki_table_src_remove(struct spki_table *spki_table, const struct rtr_socket *socket);
int spki_table_copy_except_socket(struct spki_table *src, struct spki_table *dest, struct rtr_socket *socket);
void spki_table_notify_diff(struct spki_table *new_table, struct spki_table *old_table,
			    const struct rtr_socket *socket);
void spki_table_swap(struct spki_table *a, struct spki_table *b);
#endif

/* ---- rtr private ---- */
#ifndef RTR_PRIVATE_H
int rtr_init(struct rtr_socket *rtr_socket, struct tr_socket *tr_socket, struct pfx_table *pfx_table,
	     struct spki_table *spki_table, const unsigned int refresh_interval, const unsigned int expire_interval,
	     const unsigned int retry_interval, enum rtr_interval_mode iv_mode, rtr_connection_state_fp fp,
	     void *fp_data_config, void *fp_data_group);
int rtr_start(struct rtr_socket *rtr_socket);
void rtr_stop(struct rtr_socket *rtr_socket);
void rtr_change_socket_state(struct rtr_socket *rtr_socket, const enum rtr_socket_state new_state);
int rtr_sync(struct rtr_socket *rtr_socket);
int rtr_wait_for_sync(struct rtr_socket *rtr_socket);
int rtr_send_serial_query(struct rtr_socket *rtr_socket);
int rtr_send_reset_query(struct rtr_socket *rtr_socket);
#endif

/* ---- allocator ---- */
void lrtr_set_alloc_functions(void *(*malloc_function)(size_t size), void *(*realloc_function)(void *ptr, size_t size),
			      void(free_function)(void *ptr));
void *lrtr_malloc(size_t size);
void lrtr_free(void *ptr);
void *lrtr_realloc(void *ptr, size_t size);

/* ---- shim.c ---- */
size_t shim_spki_table_sizeof(void);
struct spki_table *shim_spki_table_new(spki_update_fp fp); /* plain malloc + spki_table_init */
void shim_spki_table_delete(struct spki_table *t);	   /* spki_table_free + free */
void shim_spki_set_update_fp(struct spki_table *t, spki_update_fp fp);
unsigned int shim_spki_count(struct spki_table *t); /* hashlin count (for resize-step classification only) */
unsigned int shim_spki_bucket_bits(struct spki_table *t);
void *shim_spki_lock(struct spki_table *t); /* address of the table's pthread_rwlock_t */
uint32_t shim_inthash_u32(uint32_t key); /* tommy_inthash_u32, to build colliding AS groups */
unsigned int shim_rtr_max_pdu_len(void);
unsigned int shim_rtr_recv_timeout(void);
void shim_rtr_interval_bounds(uint32_t out[6]); /* exp_min exp_max ref_min ref_max ret_min ret_max */

#ifdef __cplusplus
}
#endif
#endif
