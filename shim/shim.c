#include "rtrlib/lib/alloc_utils_private.h"
#include "rtrlib/pfx/pfx_private.h"
#include "rtrlib/rtr/packets_private.h"
#include "rtrlib/rtr/rtr_private.h"
#include "rtrlib/spki/hashtable/ht-spkitable_private.h"
#include "rtrlib/transport/transport_private.h"
#include "rtr_shim.h"

#include <stdlib.h>

size_t shim_spki_table_sizeof(void)
{
	return sizeof(struct spki_table);
}

struct spki_table *shim_spki_table_new(spki_update_fp fp)
{
	struct spki_table *t = malloc(sizeof(*t));

	spki_table_init(t, fp);
	return t;
}

void shim_spki_table_delete(struct spki_table *t)
{
	spki_table_free(t);
	free(t);
}

void shim_spki_set_update_fp(struct spki_table *t, spki_update_fp fp)
{
	t->update_fp = fp;
}

unsigned int shim_spki_count(struct spki_table *t)
{
	return t->hashtable.count;
}

unsigned int shim_spki_bucket_bits(struct spki_table *t)
{
	return t->hashtable.bucket_bit;
}

uint32_t shim_inthash_u32(uint32_t key)
{
	return tommy_inthash_u32(key);
}

unsigned int shim_rtr_max_pdu_len(void)
{
	return RTR_MAX_PDU_LEN;
}

unsigned int shim_rtr_recv_timeout(void)
{
	return RTR_RECV_TIMEOUT;
}

void shim_rtr_interval_bounds(uint32_t out[6])
{
	out[0] = RTR_EXPIRATION_MIN;
	out[1] = RTR_EXPIRATION_MAX;
	out[2] = RTR_REFRESH_MIN;
	out[3] = RTR_REFRESH_MAX;
	out[4] = RTR_RETRY_MIN;
	out[5] = RTR_RETRY_MAX;
}

void *shim_spki_lock(struct spki_table *t)
{
	return &t->lock;
}
