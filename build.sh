#!/bin/bash
# build.sh <flavour>  -> prints the directory holding librtr.a for that flavour.
#
# Builds rtrlib from the CURRENT working tree of $VERIF_REPO (default /repo) into
# /verif/build/lib-<flavour>-<hash>/ where <hash> covers every *.c/*.h under
# rtrlib/ and third-party/ plus this script, so an edited source can never be
# masked by a stale object.  Older hashes of the same flavour are pruned.
#
# Flavours
#   asan  clang -O1 -g  ASan + UBSan{bounds,null,object-size,return,unreachable}, asserts ON
#   fuzz  asan + -fsanitize=fuzzer-no-link
#   tsan  clang -O1 -g  -fsanitize=thread, asserts ON
#   msan  clang -O1 -g  -fsanitize=memory  (no bgpsec objects: libcrypto is uninstrumented)
#   plain clang -O1 -g  asserts ON, no sanitizer (valgrind / quick forks)
set -euo pipefail
FLAVOUR="${1:?usage: build.sh asan|fuzz|tsan|msan|plain}"
REPO="${VERIF_REPO:-/repo}"
VERIF="$(cd "$(dirname "$0")" && pwd)"
BUILD="$VERIF/build"
mkdir -p "$BUILD"

UBSAN="-fsanitize=bounds,null,object-size,return,unreachable -fno-sanitize-recover=all"
case "$FLAVOUR" in
  asan)  SAN="-fsanitize=address $UBSAN" ;;
  fuzz)  SAN="-fsanitize=address,fuzzer-no-link $UBSAN" ;;
  tsan)  SAN="-fsanitize=thread" ;;
  msan)  SAN="-fsanitize=memory -fsanitize-memory-track-origins" ;;
  plain) SAN="" ;;
  *) echo "unknown flavour $FLAVOUR" >&2; exit 2 ;;
esac
# Guard for verification hooks in rtrlib (none are needed so far, see DESIGN.md §10).
CFLAGS="-std=gnu99 -O1 -g -w -fno-omit-frame-pointer -DRTRLIB_VERIF $SAN"

SRCS="rtrlib/rtr_mgr.c rtrlib/lib/utils.c rtrlib/lib/alloc_utils.c rtrlib/lib/convert_byte_order.c
rtrlib/lib/ip.c rtrlib/lib/ipv4.c rtrlib/lib/ipv6.c rtrlib/lib/log.c
rtrlib/pfx/trie/trie.c rtrlib/pfx/trie/trie-pfx.c rtrlib/transport/transport.c
rtrlib/rtr/rtr.c rtrlib/rtr/packets.c rtrlib/spki/hashtable/ht-spkitable.c
third-party/tommyds/tommy.c"
if [ "$FLAVOUR" != msan ]; then
  SRCS="$SRCS rtrlib/bgpsec/bgpsec.c rtrlib/bgpsec/bgpsec_utils.c"
fi

HASH=$( { cd "$REPO" && find rtrlib third-party -type f \( -name '*.c' -o -name '*.h' \) ! -name config.h ! -name rtrlib.h -print0 \
          | sort -z | xargs -0 sha1sum; echo "$CFLAGS $SRCS"; sha1sum "$VERIF/build.sh"; } | sha1sum | cut -c1-16)
OUT="$BUILD/lib-$FLAVOUR-$HASH"

if [ -f "$OUT/.done" ]; then touch "$OUT/.done"; echo "$OUT"; exit 0; fi

exec 9>"$BUILD/.lock-$FLAVOUR"
flock 9
if [ -f "$OUT/.done" ]; then echo "$OUT"; exit 0; fi

# prune old hashes of this flavour: keep the 5 most recently used (concurrent checks against
# other trees, e.g. mutation runs, must not lose their library under their feet)
{ ls -1dt "$BUILD"/lib-"$FLAVOUR"-*/.done 2>/dev/null || true; } | tail -n +6 | while read -r f; do rm -rf "$(dirname "$f")"; done

rm -rf "$OUT"; mkdir -p "$OUT/gen/rtrlib" "$OUT/obj"
cat > "$OUT/gen/rtrlib/config.h" <<EOF
#ifndef RTR_CONFIG_H
#define RTR_CONFIG_H
$( [ "$FLAVOUR" != msan ] && echo '#define RTRLIB_BGPSEC_ENABLED' )
#endif
EOF
cp "$OUT/gen/rtrlib/config.h" "$OUT/gen/config.h"

INC="-I$OUT/gen -I$OUT/gen/rtrlib -I$REPO"
export OUT INC CFLAGS REPO
if ! echo $SRCS | tr ' ' '\n' | xargs -P 16 -I{} sh -c '
    o="$OUT/obj/$(echo {} | tr / _ | sed s/\\.c\$/.o/)"
    clang $CFLAGS $INC -c "$REPO/{}" -o "$o" 2>"$o.err" || { cat "$o.err" >&2; exit 255; }
  ' ; then
  echo "BUILD-FAILED flavour=$FLAVOUR" >&2
  exit 3
fi
ar rcs "$OUT/librtr.a" "$OUT"/obj/*.o
echo "$INC" > "$OUT/inc_flags"
echo "$CFLAGS" > "$OUT/c_flags"
touch "$OUT/.done"
echo "$OUT"
