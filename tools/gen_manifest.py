#!/usr/bin/env python3
"""Regenerates MANIFEST.json from tools/checks.py (single source of truth)."""
import json
import os
import sys

VERIF = os.path.dirname(os.path.dirname(os.path.abspath(__file__)))
sys.path.insert(0, os.path.join(VERIF, "tools"))
from checks import CHECKS, NOT_APPLICABLE, ENGINES  # noqa: E402

props = [json.loads(l)["id"] for l in open(os.path.join(VERIF, "properties.jsonl"))]
checks = []
for pid in props:
    if pid not in CHECKS:
        continue
    c = CHECKS[pid]
    checks.append({
        "property_id": pid,
        "quick_cmd": "./run_check.sh %s quick" % pid,
        "thorough_cmd": "./run_check.sh %s thorough" % pid,
        "evidence_file": "/verif/evidence/%s.json" % pid,
        "replay_cmd_template": "./run_check.sh %s --replay {path}" % pid,
        "engine": c.get("engine", "rapidcheck"),
        "level_claimed": {"category": c["level"], "text": c["level_text"], "design_ref": c.get("design_ref", "DESIGN.md §7 " + pid)},
        "level_note": c["level_note"],
        "technique": c["technique"],
    })
na = [{"property_id": p, "reason": r} for p, r in NOT_APPLICABLE.items()]
for pid in props:
    if pid not in CHECKS and pid not in NOT_APPLICABLE:
        na.append({"property_id": pid, "reason": "check not built yet in this revision of /verif (planned in DESIGN.md §7); no claim is made"})
m = {
    "version": 1,
    "setup_cmd": "./setup.sh",
    "hooks": {
        "guard": "RTRLIB_VERIF",
        "enable": "build.sh compiles rtrlib with -DRTRLIB_VERIF (no hook code exists in rtrlib: mock transport via struct tr_socket, allocator via lrtr_set_alloc_functions, clock/sleep/locks via ld --wrap)",
        "baseline_off_cmd": "cmake --build /repo/_build && ctest --test-dir /repo/_build -j8 --timeout 900",
        "source_commits": [],
        "add_only": True,
    },
    "engines": ENGINES,
    "checks": checks,
    "not_applicable": na,
    "notes": "All checks are property-based tests / fuzzers with explicit oracles (DESIGN.md). run_check.sh rebuilds rtrlib from /repo's working tree (content-hashed) on every invocation. known_findings.json lists genuine defects recorded instead of repaired and the fix: commits made.",
}
with open(os.path.join(VERIF, "MANIFEST.json"), "w") as f:
    json.dump(m, f, indent=1)
print("MANIFEST.json: %d checks, %d not_applicable" % (len(checks), len(na)))
