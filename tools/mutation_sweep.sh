#!/bin/bash
# run every mutants/<Cnn>_*.diff against the quick check of Cnn; summary on stdout
cd "$(dirname "$0")/.."
for m in mutants/C*.diff; do
  prop=$(basename "$m" | cut -d_ -f1)
  [ -n "$1" ] && [[ "$m" != *"$1"* ]] && continue
  tools/mutation_check.sh "$m" "$prop" quick 2>&1 | grep -E "^(CAUGHT|SURVIVED|CHECK-BROKEN|PATCH-FAILED)"
done
