#!/usr/bin/env python3
# Prints the markdown table of seeded/<id>/meta.json (used for DESIGN.md section 11).
import glob, json, os

root = os.path.dirname(os.path.dirname(os.path.abspath(__file__)))
print("  | id | change (short) | needs | caught by |")
print("  |---|---|---|---|")
for d in sorted(glob.glob(os.path.join(root, "seeded", "*"))):
    mp = os.path.join(d, "meta.json")
    if not os.path.exists(mp):
        continue
    m = json.load(open(mp))
    def cell(s, n):
        s = " ".join(str(s).split()).replace("|", "/")
        return s if len(s) <= n else s[: n - 1].rstrip() + "…"
    caught = m.get("caught_by", "")
    if m.get("blind_spot_fixed"):
        caught += " — " + m["blind_spot_fixed"]
    print("| `seeded/%s` | %s | %s | %s |" % (os.path.basename(d), cell(m.get("what_it_breaks", ""), 200), cell(m.get("needs_to_manifest", ""), 180), cell(caught, 260)))
