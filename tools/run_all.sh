#!/bin/bash
# run_all.sh [quick|thorough] — every check in turn; one summary line each
cd "$(dirname "$0")/.."
tier="${1:-quick}"
# optional: VERIF_ORDER="C03 C04 ..." restricts / orders the properties
for p in ${VERIF_ORDER:-$(python3 -c "import json;print(' '.join(c['property_id'] for c in json.load(open('MANIFEST.json'))['checks']))")}; do
  s=$(date +%s); out=$(./run_check.sh $p $tier 2>&1); rc=$?; e=$(date +%s)
  echo "$p rc=$rc $((e-s))s $(echo "$out" | grep -E '^(OK|VIOLATION|BROKEN|KNOWN)' | head -3 | tr '\n' ' ' | cut -c1-200)"
done
