#!/bin/bash
# every seeded/<id>/patch.diff against the quick check of its property
cd "$(dirname "$0")/.."
for d in seeded/*/; do
  id=$(basename $d); prop=${id%%-*}
  [ -n "$1" ] && [[ "$id" != *"$1"* ]] && continue
  echo -n "$id: "; tools/mutation_check.sh $d/patch.diff $prop quick 2>&1 | grep -E "^(CAUGHT|SURVIVED|CHECK-BROKEN|PATCH-FAILED)" | tr '\n' ' '; echo
done
