#!/bin/bash
# every seeded/<id>/patch.diff against the quick check of its property
cd "$(dirname "$0")/.."
for d in seeded/*/; do
  id=$(basename $d); prop=${id%%-*}
  [ -n "$1" ] && [[ "$id" != *"$1"* ]] && continue
  grep -q neutralised_by_fix $d/meta.json 2>/dev/null && { echo "$id: skipped (neutralised by a later fix, see meta.json)"; continue; }
  echo -n "$id: "; tools/mutation_check.sh $d/patch.diff $prop quick 2>&1 | grep -E "^(CAUGHT|SURVIVED|CHECK-BROKEN|PATCH-FAILED)" | tr '\n' ' '; echo
done
