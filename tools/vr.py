#!/usr/bin/env python3
"""vr.py — the one entry point of the verification machinery.

    vr.py <Cnn> quick|thorough            run a check (exit 0 held / 1 violation / 2 broken check)
    vr.py <Cnn> --replay <file>           re-run one saved case through the plain replay path
    vr.py --build-all                     pre-build every library flavour and driver (setup)

Environment: VERIF_SEED (default 1), VERIF_REPO (default /repo), VERIF_JOBS (default: all cores).

Every run: rebuilds rtrlib from the working tree of $VERIF_REPO (build.sh, content-hashed),
builds the driver, replays corpus/<Cnn>/regress/*, fans the driver out over processes with
seeds VERIF_SEED*1000+i, merges the measured counters, writes evidence/<Cnn>.json and
prints `VIOLATION property=<id> replay=<path>` / `KNOWN-FINDING: property=<id> ...` lines.
"""
import hashlib
import json
import os
import shutil
import subprocess
import sys
import time
from concurrent.futures import ThreadPoolExecutor

VERIF = os.path.dirname(os.path.dirname(os.path.abspath(__file__)))
REPO = os.environ.get("VERIF_REPO", "/repo")
BUILD = os.path.join(VERIF, "build")
SEED = int(os.environ.get("VERIF_SEED", "1") or "1")
JOBS = int(os.environ.get("VERIF_JOBS", str(os.cpu_count() or 4)))

sys.path.insert(0, os.path.join(VERIF, "tools"))
from checks import CHECKS  # noqa: E402  (per-property configuration)


def sh(cmd, **kw):
    return subprocess.run(cmd, shell=isinstance(cmd, str), stdout=subprocess.PIPE, stderr=subprocess.STDOUT,
                          universal_newlines=True, **kw)


def build_lib(flavour):
    r = subprocess.run([os.path.join(VERIF, "build.sh"), flavour], stdout=subprocess.PIPE, stderr=subprocess.PIPE,
                       universal_newlines=True, env=dict(os.environ, VERIF_REPO=REPO))
    if r.returncode != 0:
        sys.stderr.write(r.stderr)
        print("BROKEN: rtrlib does not build (flavour %s)" % flavour)
        sys.exit(2)
    return r.stdout.strip().splitlines()[-1]


def file_hash(paths, extra=""):
    h = hashlib.sha1(extra.encode())
    for p in sorted(paths):
        with open(p, "rb") as f:
            h.update(p.encode())
            h.update(f.read())
    return h.hexdigest()[:16]


COMMON_DEPS = ["props/common.hpp", "shim/rtr_shim.h", "shim/shim.c", "model/pfx_model.hpp", "model/spki_model.hpp",
               "engine/convsim.c", "engine/convsim.h"]


def build_driver(drv, libdir):
    """drv: dict(name, sources[], flavour, cxxflags, ldflags, lang). Returns path of the binary."""
    srcs = [os.path.join(VERIF, s) for s in drv["sources"]]
    deps = srcs + [os.path.join(VERIF, d) for d in COMMON_DEPS + drv.get("deps", []) if os.path.exists(os.path.join(VERIF, d))]
    key = file_hash(deps, extra=libdir + json.dumps(drv, sort_keys=True))
    ddir = os.path.join(BUILD, "drv-%s-%s" % (drv["name"], key))
    exe = os.path.join(ddir, drv["name"])
    if os.path.exists(exe + ".ok"):
        try:
            os.utime(ddir, None)
        except OSError:
            pass
        return exe
    # prune older builds of this driver: keep the 5 most recent
    olds = sorted([os.path.join(BUILD, d) for d in os.listdir(BUILD) if d.startswith("drv-%s-" % drv["name"]) and os.path.join(BUILD, d) != ddir],
                  key=lambda x: os.path.getmtime(x), reverse=True)
    for d in olds[5:]:
        shutil.rmtree(d, ignore_errors=True)
    os.makedirs(ddir, exist_ok=True)
    inc = "-I%s/gen -I%s/gen/rtrlib -I%s" % (libdir, libdir, REPO)  # headers of the tree under test (same content hash as the library)
    cflags = open(os.path.join(libdir, "c_flags")).read().strip()
    san = " ".join(f for f in cflags.split() if f.startswith("-fsanitize") or f.startswith("-fno-sanitize"))
    san_link = san.replace("fuzzer-no-link", "fuzzer") if drv.get("libfuzzer") else san.replace(",fuzzer-no-link", "")
    objs = []
    cmds = []
    for s in srcs:
        o = os.path.join(ddir, os.path.basename(s) + ".o")
        objs.append(o)
        if s.endswith(".c"):
            cmds.append("clang %s %s -I%s/shim -I%s/engine -I%s %s -c %s -o %s" %
                        (cflags, inc, VERIF, VERIF, VERIF, drv.get("cflags", ""), s, o))
        else:
            cmds.append("clang++ -std=gnu++17 -O1 -g -w -fno-omit-frame-pointer %s %s -I%s/shim -I%s/engine -I%s %s -c %s -o %s" %
                        (san, inc, VERIF, VERIF, VERIF, drv.get("cxxflags", ""), s, o))
    with ThreadPoolExecutor(max_workers=8) as ex:
        rs = list(ex.map(sh, cmds))
    for c, r in zip(cmds, rs):
        if r.returncode != 0:
            print("BROKEN: driver compile failed:\n%s\n%s" % (c, r.stdout[-6000:]))
            sys.exit(2)
    linker = "clang++" if any(not s.endswith(".c") for s in srcs) else "clang"
    link = "%s -g %s %s %s/librtr.a %s -lcrypto -lpthread -o %s" % (
        linker, san_link, " ".join(objs), libdir, drv.get("ldflags", ""), exe)
    r = sh(link)
    if r.returncode != 0:
        print("BROKEN: driver link failed:\n%s\n%s" % (link, r.stdout[-6000:]))
        sys.exit(2)
    open(exe + ".ok", "w").close()
    return exe


def load_known(prop):
    p = os.path.join(VERIF, "known_findings.json")
    if not os.path.exists(p):
        return []
    data = json.load(open(p))
    return [e for e in data.get("findings", []) if e.get("property") == prop and e.get("status") == "known"]


SAN_ENV = {
    "ASAN_OPTIONS": "detect_leaks=0:abort_on_error=0:exitcode=86:allocator_may_return_null=1:handle_abort=1:detect_stack_use_after_return=0",
    "UBSAN_OPTIONS": "halt_on_error=1:print_stacktrace=1:exitcode=86",
    "TSAN_OPTIONS": "halt_on_error=1:exitcode=86:second_deadlock_stack=1",
    "MSAN_OPTIONS": "exitcode=86",
}


def run_proc(cmd, env, timeout):
    t0 = time.time()
    try:
        r = subprocess.run(cmd, stdout=subprocess.PIPE, stderr=subprocess.STDOUT, env=env, timeout=timeout,
                           universal_newlines=True, errors="replace")
        return r.returncode, r.stdout, time.time() - t0, False
    except subprocess.TimeoutExpired as e:
        out = e.stdout if isinstance(e.stdout, str) else (e.stdout or b"").decode(errors="replace")
        return -999, out, time.time() - t0, True


def crash_signature(output):
    """A short classifier for sanitizer / assert aborts: used for known-finding matching and dedup."""
    import re
    m = re.search(r"Assertion `([^']*)' failed", output)
    if m:
        fn = re.search(r"(\w+)\([^()]*\): Assertion", output)
        return "assert:%s:%s" % (fn.group(1) if fn else "?", m.group(1))
    m = re.search(r"ERROR: AddressSanitizer: ([a-zA-Z-]+)", output)
    if m:
        fr = re.findall(r"#\d+ 0x[0-9a-f]+ in ([A-Za-z0-9_]+) ", output)
        fr = [f for f in fr if not f.startswith("__") and f not in ("malloc", "free", "realloc", "calloc", "memcpy", "memset")]
        return "asan:%s:%s" % (m.group(1), fr[0] if fr else "?")
    m = re.search(r"runtime error: ([^\n]*)", output)
    if m:
        return "ubsan:" + m.group(1)[:80]
    m = re.search(r"WARNING: ThreadSanitizer: ([a-z -]+)", output)
    if m:
        fr = re.findall(r"#\d+ ([A-Za-z0-9_]+) ", output)
        fr = [f for f in fr if not f.startswith("__") and not f.startswith("pthread")]
        return "tsan:%s:%s" % (m.group(1).strip(), fr[0] if fr else "?")
    return "crash:unclassified"


def crash_summary(out):
    keep = [l.strip() for l in out.splitlines()
            if "Assertion" in l or "ERROR: " in l or "SUMMARY" in l or "runtime error" in l or "WARNING: ThreadSanitizer" in l]
    if not keep:
        keep = out.strip().splitlines()[-6:]
    return " | ".join(keep)[:900]


def ddmin_lines(text, still_fails, budget_s=90):
    """Delta debugging over the lines of a case (header lines starting with 'base'/'hdr' are kept)."""
    lines = text.splitlines()
    fixed = [l for l in lines if l.startswith("base") or l.startswith("hdr") or l.startswith("#")]
    ops = [l for l in lines if l not in fixed]
    t0 = time.time()
    n = 2
    while len(ops) >= 2 and time.time() - t0 < budget_s:
        chunk = max(1, len(ops) // n)
        reduced = False
        for i in range(0, len(ops), chunk):
            cand = ops[:i] + ops[i + chunk:]
            if cand and still_fails("\n".join(fixed + cand) + "\n"):
                ops = cand
                n = max(n - 1, 2)
                reduced = True
                break
            if time.time() - t0 > budget_s:
                break
        if not reduced:
            if chunk == 1:
                break
            n = min(n * 2, len(ops))
    return "\n".join(fixed + ops) + "\n"


def save_replay(prop, driver, sig, what, case_text):
    d = os.path.join(VERIF, "replays", prop)
    os.makedirs(d, exist_ok=True)
    body = "# verif-replay property=%s driver=%s\n# sig=%s\n# what=%s\n%s" % (
        prop, driver, sig, what.replace("\n", " ")[:600], case_text if case_text.endswith("\n") else case_text + "\n")
    name = hashlib.sha1(body.encode()).hexdigest()[:12] + ".replay"
    path = os.path.join(d, name)
    with open(path, "w") as f:
        f.write(body)
    return path


def replay_once(exe, prop, path, known_sigs, extra_args, env, timeout=300):
    cmd = [exe, "--prop", prop, "--replay", path, "--known", ",".join(known_sigs)] + extra_args
    rc, out, _, to = run_proc(cmd, env, timeout)
    return rc, out, to


def write_evidence(prop, cfg, tier, cov, wall, violations, assumptions):
    os.makedirs(os.path.join(VERIF, "evidence"), exist_ok=True)
    ev = {
        "property_id": prop,
        "tier": tier,
        "seed": SEED,
        "level": cfg["level"],
        "coverage": cov,
        "assumptions": assumptions,
        "wall_s": round(wall, 2),
        "violations": violations,
    }
    p = os.path.join(VERIF, "evidence", prop + ".json")
    with open(p + ".tmp", "w") as f:
        json.dump(ev, f, indent=1)
    os.replace(p + ".tmp", p)


def run_libfuzzer_stage(prop, stage, tier, env, work, merged, known_sigs, handle_failure):
    """Coverage-guided stage: N libFuzzer workers over the byte-encoded script format."""
    import glob
    drv = stage["driver"]
    lib = build_lib(drv["flavour"])
    exe = build_driver(drv, lib)
    rdrv = stage["replay_driver"]
    rexe = build_driver(rdrv, build_lib(rdrv["flavour"]))
    t = stage[tier]
    nproc = min(t.get("procs", 4), JOBS)
    procs = []
    for i in range(nproc):
        cdir = os.path.join(work, "corpus-%d" % i)
        os.makedirs(cdir, exist_ok=True)
        sdir = os.path.join(VERIF, "corpus", stage.get("seed_prop", prop), "seed")
        if i % 2 == 0 and os.path.isdir(sdir):  # every second worker starts from the committed seed corpus, the others from nothing
            for fn in os.listdir(sdir):
                shutil.copy(os.path.join(sdir, fn), cdir)
        seed = SEED * 1000 + i + 1
        outp = os.path.join(work, "fuzz-%d.json" % i)
        penv = dict(env, VERIF_FUZZ_OUT=outp, VERIF_FUZZ_PROP=prop)
        cmd = [exe, "-runs=%d" % t["runs"], "-seed=%d" % seed, "-max_len=%d" % t.get("max_len", 1024), "-timeout=60", "-rss_limit_mb=3000",
               "-print_final_stats=1", "-artifact_prefix=%s/art-%d-" % (work, i), "-entropic=0", cdir]
        procs.append((cmd, penv, outp, i))
    with ThreadPoolExecutor(max_workers=nproc) as ex:
        results = list(ex.map(lambda p: run_proc(p[0], p[1], t.get("timeout", 900 if tier == "quick" else 7200)), procs))
    stage_eval = 0
    for (cmd, penv, outp, i), (rc, out, wall, timed_out) in zip(procs, results):
        if os.path.exists(outp):
            try:
                res = json.load(open(outp))
                merged["evaluations"] += res["evaluations"]
                stage_eval += res["evaluations"]
                merged["nontrivial"].update("fz" + h for h in res["nontrivial_hashes"])
                for k, v in res["classes"].items():
                    merged["classes"][k] = merged["classes"].get(k, 0) + v
                merged["classes"]["fuzz:failures-charged-to-other-properties(ignored-here)"] = merged["classes"].get("fuzz:failures-charged-to-other-properties(ignored-here)", 0) + res.get("other_property_failures", 0)
                for smp in res["samples"]:
                    if len(merged["samples"]) < 6:
                        merged["samples"].append("[libFuzzer-decoded script]\n" + smp)
            except Exception:
                pass
        if timed_out:
            merged["inconclusive"] += 1
            continue
        for art in glob.glob("%s/art-%d-*" % (work, i)):
            base = os.path.basename(art)
            if "crash-" not in base and "leak-" not in base:
                merged["inconclusive"] += 1
                merged["classes"]["fuzz:" + base.split("-")[2] + "-artifact(load-noise)"] = merged["classes"].get("fuzz:" + base.split("-")[2] + "-artifact(load-noise)", 0) + 1
                continue
            r = subprocess.run([exe], env=dict(env, VERIF_TOTEXT=art), stdout=subprocess.PIPE, stderr=subprocess.DEVNULL, universal_newlines=True)
            text = r.stdout
            sig = crash_signature(out)
            what = crash_summary(out)
            for line in out.splitlines():
                if line.startswith("VERIF-FUZZ-FAILURE"):
                    sig = line.split()[1].rstrip(":")
                    what = line[len("VERIF-FUZZ-FAILURE "):]
            rstage = dict(stage, driver=rdrv)
            try:  # keep the tail of the fuzzer's own output for diagnosis (crashes of the harness itself do not reproduce from the input alone)
                ddir = os.path.join(VERIF, "replays", prop)
                os.makedirs(ddir, exist_ok=True)
                with open(os.path.join(ddir, "fuzz-%s.txt" % base[:60]), "w") as fh:
                    fh.write(out[-12000:])
            except Exception:
                pass
            if sig in known_sigs:
                merged["excluded"].setdefault(sig, {"count": 0, "example": text[:300]})["count"] += 1
            else:
                handle_failure(rstage, rexe, sig, what, text, out if "VERIF-FUZZ-FAILURE" not in out else None)
    merged["stages"].append({"driver": drv["name"], "flavour": drv["flavour"], "processes": nproc, "evaluations": stage_eval, "engine": "libFuzzer"})


def main():
    if len(sys.argv) >= 2 and sys.argv[1] == "--build-all":
        flav = set()
        for prop, cfg in CHECKS.items():
            for st in cfg["stages"]:
                flav.add(st["driver"]["flavour"])
                if "replay_driver" in st:
                    flav.add(st["replay_driver"]["flavour"])
        libs = {f: build_lib(f) for f in sorted(flav)}
        seen = set()
        for prop, cfg in CHECKS.items():
            for st in cfg["stages"]:
                d = st["driver"]
                if d["name"] in seen:
                    continue
                seen.add(d["name"])
                build_driver(d, libs[d["flavour"]])
                print("built", d["name"])
        return 0

    prop = sys.argv[1]
    if prop not in CHECKS:
        print("unknown property", prop)
        return 2
    cfg = CHECKS[prop]
    replay_path = None
    tier = os.environ.get("VERIF_TIER", "quick")
    if len(sys.argv) >= 4 and sys.argv[2] == "--replay":
        replay_path = sys.argv[3]
    elif len(sys.argv) >= 3:
        tier = sys.argv[2]
    if tier not in ("quick", "thorough"):
        tier = "quick"

    t_start = time.time()
    known = load_known(prop)
    known_sigs = [k["signature"] for k in known]
    env = dict(os.environ)
    env.update(SAN_ENV)
    env["VERIF_DIR"] = VERIF

    # ---- replay mode -------------------------------------------------------------------------
    if replay_path:
        drvname = None
        for line in open(replay_path, errors="replace"):
            if line.startswith("# verif-replay"):
                for tok in line.split():
                    if tok.startswith("driver="):
                        drvname = tok[7:]
                break
        stage = None
        for st in cfg["stages"]:
            if drvname is None or st["driver"]["name"] == drvname:
                stage = st
                break
        if stage is None:
            stage = cfg["stages"][0]
        lib = build_lib(stage["driver"]["flavour"])
        exe = build_driver(stage["driver"], lib)
        rc, out, to = replay_once(exe, prop, replay_path, known_sigs, stage.get("args", []), env)
        sys.stdout.write(out[-8000:])
        if to:
            print("REPLAY-TIMEOUT")
            return 1
        if rc == 0:
            return 0
        print("VIOLATION property=%s replay=%s" % (prop, replay_path))
        return 1

    # ---- check mode --------------------------------------------------------------------------
    violations = []  # (sig, what, replay_path)
    merged = {"evaluations": 0, "nontrivial": set(), "classes": {}, "samples": [], "excluded": {}, "inconclusive": 0,
              "extra": {}, "stages": []}
    work = os.path.join(BUILD, "run-%s-%s-%d" % (prop, tier, os.getpid()))
    os.makedirs(work, exist_ok=True)

    def handle_failure(stage, exe, sig, what, case_text, crashed_output=None):
        # de-duplicate by signature
        for v in violations:
            if v[0] == sig:
                return
        if crashed_output is not None and stage.get("ddmin", True):
            tmp = os.path.join(work, "ddmin.replay")

            def still_fails(cand):
                with open(tmp, "w") as f:
                    f.write(cand)
                rc, out, to = replay_once(exe, prop, tmp, known_sigs, stage.get("args", []), env, timeout=60)
                return (not to) and rc != 0 and crash_signature(out) == sig
            if still_fails(case_text):
                case_text = ddmin_lines(case_text, still_fails)
        path = save_replay(prop, stage["driver"]["name"], sig, what, case_text)
        # confirm: the plain replay path must fail 3 times out of 3 (schedule-dependent drivers: any of N)
        fails = 0
        tries = stage.get("replay_tries", 3)
        need = stage.get("replay_need", 3)
        for _ in range(tries):
            rc, out, to = replay_once(exe, prop, path, known_sigs, stage.get("args", []), env)
            if rc != 0 and not to:
                fails += 1
        if fails >= need:
            violations.append((sig, what, path))
        else:
            merged["inconclusive"] += 1
            merged["classes"]["unconfirmed-failure(%s)" % sig] = merged["classes"].get("unconfirmed-failure(%s)" % sig, 0) + 1
            print("note: failure %s did not reproduce from its replay file (%d/%d) — counted as inconclusive: %s" % (sig, fails, tries, path))

    for stage in cfg["stages"]:
        if tier not in stage.get("tiers", ("quick", "thorough")):
            continue
        if stage.get("type") == "libfuzzer":
            run_libfuzzer_stage(prop, stage, tier, env, work, merged, known_sigs, handle_failure)
            if violations and tier == "quick":
                break
            continue
        drv = stage["driver"]
        lib = build_lib(drv["flavour"])
        exe = build_driver(drv, lib)
        sargs = list(stage.get("args", []))

        # 1. regression replays (seconds)
        rdir = os.path.join(VERIF, "corpus", prop, "regress")
        if os.path.isdir(rdir) and not stage.get("no_regress"):
            for fn in sorted(os.listdir(rdir)):
                if not fn.endswith(".replay"):
                    continue
                p = os.path.join(rdir, fn)
                hdr = open(p, errors="replace").readline()
                if "driver=%s" % drv["name"] not in hdr:
                    continue
                rc, out, to = replay_once(exe, prop, p, known_sigs, sargs, env)
                merged["classes"]["regress-replays"] = merged["classes"].get("regress-replays", 0) + 1
                if rc != 0 and not to:
                    sig = "regress:" + fn
                    if rc == 86 or rc < 0 or "REPLAY-FAIL" not in out:
                        sig = crash_signature(out)
                    else:
                        for l in out.splitlines():
                            if l.startswith("REPLAY-FAIL"):
                                sig = l.split("sig=")[1].split(" ")[0] if "sig=" in l else sig
                    if sig in known_sigs:
                        merged["excluded"].setdefault(sig, {"count": 0, "example": fn})["count"] += 1
                    else:
                        violations.append((sig, "regression replay fails: " + out.strip().splitlines()[-1][:300] if out.strip() else fn, p))

        # 2. generated search
        t = stage[tier]
        nproc = min(t.get("procs", 1), JOBS)
        procs = []
        for i in range(nproc):
            outp = os.path.join(work, "%s-%d.json" % (drv["name"], i))
            seed = SEED * 1000 + i
            penv = dict(env)
            if "rc" in t:
                penv["RC_PARAMS"] = "seed=%d max_success=%d max_size=%d max_discard_ratio=50" % (
                    seed if seed != 0 else 1, t["rc"][0], t["rc"][1])
            cmd = [exe, "--prop", prop, "--out", outp, "--tier", tier, "--known", ",".join(known_sigs), "--seed", str(seed)] + sargs + [str(a) for a in t.get("args", [])]
            procs.append((cmd, penv, outp))
        with ThreadPoolExecutor(max_workers=max(1, nproc)) as ex:
            results = list(ex.map(lambda p: run_proc(p[0], p[1], t.get("timeout", 900 if tier == "quick" else 7200)), procs))
        stage_eval = 0
        for (cmd, penv, outp), (rc, out, wall, timed_out) in zip(procs, results):
            res = None
            if os.path.exists(outp):
                try:
                    res = json.load(open(outp))
                except Exception:
                    res = None
            if timed_out:
                merged["inconclusive"] += 1
                merged["classes"]["process-hit-wall-clock-limit"] = merged["classes"].get("process-hit-wall-clock-limit", 0) + 1
                continue
            if res is None:
                # abnormal end: sanitizer / assert / signal.  The case is in <out>.current
                cur = outp + ".current"
                case_text = open(cur, errors="replace").read() if os.path.exists(cur) else ""
                sig = crash_signature(out)
                what = "process ended abnormally (exit %s): %s" % (rc, crash_summary(out))
                if sig in known_sigs:
                    merged["excluded"].setdefault(sig, {"count": 0, "example": case_text[:300]})["count"] += 1
                elif not case_text:
                    print("BROKEN: driver died without leaving a case (exit %s):\n%s" % (rc, out[-3000:]))
                    return 2
                else:
                    handle_failure(stage, exe, sig, what, case_text, out)
                continue
            merged["evaluations"] += res["evaluations"]
            stage_eval += res["evaluations"]
            merged["inconclusive"] += res.get("inconclusive", 0)
            merged["nontrivial"].update(res["nontrivial_hashes"])
            merged["nontrivial_overflow"] = merged.get("nontrivial_overflow", 0) + res.get("nontrivial_overflow", 0)
            for k, v in res["classes"].items():
                merged["classes"][k] = merged["classes"].get(k, 0) + v
            for k, v in res.get("extra", {}).items():
                merged["extra"][k] = merged["extra"].get(k, 0) + v
            for s in res["samples"]:
                if len(merged["samples"]) < 6:
                    merged["samples"].append(s)
            for k, v in res["excluded_known"].items():
                e = merged["excluded"].setdefault(k, {"count": 0, "example": v["example"]})
                e["count"] += v["count"]
            for f in res["failures"]:
                handle_failure(stage, exe, f["sig"] or "unclassified", f["what"], f["case"])
        merged["stages"].append({"driver": drv["name"], "flavour": drv["flavour"], "processes": nproc, "evaluations": stage_eval})
        if violations and tier == "quick":
            break

    shutil.rmtree(work, ignore_errors=True)

    # ---- verdict + evidence ------------------------------------------------------------------
    wall = time.time() - t_start
    cov = {
        "evaluations": merged["evaluations"],
        "distinct_nontrivial": len(merged["nontrivial"]) + merged.get("nontrivial_overflow", 0),
        "rule": cfg["rule"],
        "samples": merged["samples"][:6],
        "classes": merged["classes"],
        "excluded_known": {k: v["count"] for k, v in merged["excluded"].items()},
        "inconclusive": merged["inconclusive"],
        "stages": merged["stages"],
    }
    if merged["extra"]:
        cov["counters"] = merged["extra"]
    if cfg.get("exhaustive_note"):
        cov["exhaustive_part"] = cfg["exhaustive_note"]
    if violations:
        cov["violation_signatures"] = [v[0] for v in violations]
    write_evidence(prop, cfg, tier, cov, wall, len(violations), cfg.get("assumptions", []))

    for k in known:
        n = merged["excluded"].get(k["signature"], {}).get("count", 0)
        print("KNOWN-FINDING: property=%s %s [signature %s, %d case(s) excluded in this run]" % (prop, k["what"], k["signature"], n))
    for sig, what, path in violations:
        print("failure %s: %s" % (sig, what[:1200]))
        print("VIOLATION property=%s replay=%s" % (prop, path))
    if violations:
        return 1
    floor = cfg.get("floor", {}).get(tier, 2)
    if len(merged["nontrivial"]) + merged.get("nontrivial_overflow", 0) < floor:
        print("BROKEN: health check — only %d distinct non-trivial cases (floor %d); the generator is not reaching the property" %
              (len(merged["nontrivial"]), floor))
        return 2
    print("OK property=%s tier=%s evaluations=%d distinct_nontrivial=%d wall=%.1fs" %
          (prop, tier, merged["evaluations"], len(merged["nontrivial"]) + merged.get("nontrivial_overflow", 0), wall))
    return 0


if __name__ == "__main__":
    sys.exit(main())
