"""Per-property configuration of the checks (drivers, budgets, evidence wording)."""

SHIM = ["shim/shim.c"]


def drv(name, sources, flavour="asan", **kw):
    d = {"name": name, "sources": sources + SHIM, "flavour": flavour, "ldflags": "-lrapidcheck"}
    d.update(kw)
    return d


TABLES = drv("tables", ["props/tables.cpp"])
SPKI = drv("spki", ["props/spki.cpp"])
IPCONV = drv("ipconv", ["props/ipconv.cpp"])
ENUMNAMES = drv("enumnames", ["props/enumnames.cpp"])
WRAPS = " -Wl,--wrap=lrtr_get_monotonic_time,--wrap=sleep,--wrap=lrtr_dbg"
CONV = drv("conv", ["props/conv.cpp", "engine/convsim.cpp"], ldflags="-lrapidcheck" + WRAPS,
           deps=["engine/convsim.hpp", "engine/convsim_model.inc", "engine/convsim_mock.inc", "engine/convsim_run.inc", "engine/judge.hpp",
                 "engine/cache.hpp", "engine/script.hpp", "engine/wire.hpp"])

ENGINES = [
    {"name": "rapidcheck-drivers", "path": "props/", "serves_properties": ["C01", "C02", "C09", "C10", "C19", "C20"],
     "kind_free_text": "C++17 rapidcheck drivers linked against rtrlib built from the working tree (ASan+UBSan subset, asserts on); model-based / stateful"},
]

NOT_APPLICABLE = {}

CHECKS = {
    "C01": {
        "level": "exploration",
        "rule": "rapidcheck generates operation histories (add / re-add / remove / near-miss remove / remove-by-source / nested chains / "
                "free) over a colliding universe of nested prefixes of 3 base addresses, both families, lengths 0..32/0..128, any "
                "max-length, AS in {0,1,2,3,65000,2^32-1}, 3 sources, with validation queries interleaved (stored prefix "
                "lengthened/shortened/sibling, host bits dirty or not, random). Oracle: RFC 6811 by linear scan over a std::set model, "
                "for pfx_table_validate, pfx_table_validate_r (+ reason multiset) and rtr_mgr_validate. evaluations = histories; "
                "non-trivial = a query with >=1 covering record issued after >=1 effective removal; distinct by hash(table contents, query).",
        "assumptions": ["stored records have host bits zero and length <= address width (constructed, as every caller does)",
                        "the reference model (model/pfx_model.hpp, 40 lines, linear scan) is correct"],
        "floor": {"quick": 500, "thorough": 5000},
        "technique": "model-based property testing (rapidcheck): differential against RFC 6811 by linear scan",
        "level_text": "Sampled exploration: tens of thousands of generated insert/remove histories per run, each followed by generated queries, "
                      "compared with an independent 40-line reference model. Finds order/shape-dependent lookup bugs and reachable assertions; "
                      "does not prove absence.",
        "level_note": "Trusts the std::set reference model and that stored records respect the table's precondition (host bits zero, length <= width).",
        "stages": [{"driver": TABLES,
                    "quick": {"procs": 8, "rc": (2500, 100)},
                    "thorough": {"procs": 16, "rc": (25000, 300), "timeout": 7200}}],
    },
    "C02": {
        "level": "exploration",
        "rule": "same generator as C01. After every operation the return code must equal the model's and the full enumeration of "
                "both families must equal the model set as a multiset. evaluations = histories; non-trivial = history containing a "
                "removal of the last record of a prefix that covers another stored prefix (node pull-up) or a remove-by-source that "
                "deletes >=1 and keeps >=1 record of the same family; distinct by hash of the whole history.",
        "assumptions": ["std::set model of the five-field record"],
        "floor": {"quick": 300, "thorough": 3000},
        "technique": "stateful model-based property testing (rapidcheck) against a std::set model, full-contents comparison after every operation",
        "level_text": "Sampled exploration of operation histories with an exact-contents oracle after every step (return codes + multiset equality of "
                      "the enumeration). Finds lost/duplicated/mis-attributed records for the histories generated; not a proof.",
        "level_note": "Trusts the std::set model; sources are compared by socket pointer identity as the library does.",
        "stages": [{"driver": TABLES,
                    "quick": {"procs": 8, "rc": (2500, 100)},
                    "thorough": {"procs": 16, "rc": (25000, 300), "timeout": 7200}}],
    },
    "C09": {
        "level": "exploration",
        "rule": "part (a): same table-operation generator as C02 with an update callback installed; a mirror set is updated only by the callback; "
                "'added' for a record the mirror holds or 'removed' for one it lacks fails at once; after every operation mirror == model == "
                "enumeration; after pfx_table_free the mirror must be empty. non-trivial = history with a remove-by-source over >=2 trie nodes, "
                "a free of a table holding >=2 records, or a node pull-up; distinct by hash of the history. "
                "part (b) (callbacks during rollback / reload / expiry / stop) is checked by the conversation simulator stage.",
        "assumptions": ["callbacks are delivered synchronously by the operation that causes them"],
        "floor": {"quick": 300, "thorough": 3000},
        "technique": "stateful property testing (rapidcheck): history invariant 'replay of the callback log == table contents'",
        "level_text": "Sampled exploration of operation histories with the change-log invariant evaluated after every operation.",
        "level_note": "Trusts the std::set model. Only single-threaded histories (the log is per table; ordering across threads is not part of the property).",
        "stages": [{"driver": TABLES,
                    "quick": {"procs": 8, "rc": (2500, 100)},
                    "thorough": {"procs": 16, "rc": (25000, 300), "timeout": 7200}}],
    },
    "C10": {
        "level": "exploration",
        "rule": "rapidcheck generates histories of add / re-add / near-duplicate add / remove / near-miss remove / remove-by-source / "
                "get_all / search_by_ski / bulk add (1..90 keys) / bulk delete / copy_except_socket / the reload sequence "
                "(copy aside, load new set, swap, notify_diff) over AS numbers that share tommy_inthash_u32 low bits, 4 SKIs and 3 SPKIs "
                "differing in single bytes, 3 sources. After every operation return codes, get_all (hash side) and search_by_ski (list side) "
                "and the callback mirror must equal a std::set model (full sweep over every AS x SKI after bulk/src/copy/swap operations and at the end). "
                "non-trivial = history that crosses >=1 hash-table grow step and >=1 shrink step and contains a remove-by-source or a swap; "
                "distinct by hash of the history.",
        "assumptions": ["std::set model of (AS, SKI, SPKI, source)", "grow/shrink steps are observed through the hash table's bucket_bit field (shim)"],
        "floor": {"quick": 100, "thorough": 1000},
        "technique": "stateful model-based property testing (rapidcheck) against a std::set model; callback-log invariant",
        "level_text": "Sampled exploration of operation histories with exact lookup/contents/callback oracles after every operation, "
                      "with generators aimed at bucket collisions and resize steps.",
        "level_note": "Trusts the std::set model. Lookups are compared as multisets of full records.",
        "stages": [{"driver": SPKI,
                    "quick": {"procs": 8, "rc": (1200, 100)},
                    "thorough": {"procs": 16, "rc": (15000, 250), "timeout": 7200}}],
    },
    "C19": {
        "level": "exploration",
        "rule": "IPv4: the full 12^4 grid of octet boundary values (exhaustive) plus generated addresses; IPv6: 8 words each drawn from "
                "{0 (x4), 1, 0xffff, random}, plus the embedded-IPv4 shapes (::a.b.c.d, ::ffff:a.b.c.d, 5-word zero prefix, ::, ::1); strings: "
                "inet_ntop output / library output / uncompressed / x:x:x:x:x:x:d.d.d.d forms with 0..n mutations (truncate, delete, duplicate, "
                "swap ':' and '.', upper-case, leading zero, extra group, second '::', drop colon, drop head). Oracles: to_str->str_to_addr and "
                "to_str->inet_pton are the identity; inet_pton accepts => library accepts with the same value; the same text parsed after two "
                "different stack/output dirtying patterns gives the same return code and address; to_str with every len 0..64 between canaries. "
                "non-trivial = IPv4 case, IPv6 address whose longest zero run (>=2) is not at position 0 or that prints in embedded-IPv4 form, "
                "or a string accepted by inet_pton or by the library; distinct by hash of the case.",
        "assumptions": ["glibc inet_pton / inet_ntop are the platform parser/formatter", "over-acceptance by the library (strings inet_pton rejects) is not a violation unless the result depends on stack contents"],
        "floor": {"quick": 5000, "thorough": 50000},
        "exhaustive_note": "IPv4 octet-boundary grid 12^4 = 20736 addresses enumerated completely in every run",
        "technique": "property-based testing (rapidcheck): round-trip + differential against inet_pton + metamorphic determinism check",
        "level_text": "Exhaustive over an IPv4 boundary grid, sampled over IPv6 shapes and mutated strings, with round-trip, differential and "
                      "determinism oracles; ASan + canaries for the buffer-length clause.",
        "level_note": "Trusts glibc's inet_pton/inet_ntop. Determinism is tested with two stack-dirtying patterns (0x00, 0xFF), not with MSan.",
        "stages": [{"driver": IPCONV,
                    "quick": {"procs": 8, "rc": (20000, 100)},
                    "thorough": {"procs": 16, "rc": (400000, 200), "timeout": 7200}}],
    },
    "C20": {
        "level": "exploration",
        "engine": "rapidcheck + fork-per-probe",
        "rule": "enumerators of enum rtr_socket_state / enum rtr_mgr_status are parsed from the public headers of the tree under test; every "
                "declared enumerator (exhaustive) must map to its own name; boundary values (-1, count, count+1, 255, 256, 65536, INT_MAX, INT_MIN, "
                "UINT_MAX) and generated integers must map to NULL; every probe runs in a forked child under ASan+UBSan(bounds) so a read "
                "outside the name table is a reported failure. Every probe is non-trivial (tiny domain); distinct by (function, value).",
        "assumptions": ["the enums are declared with implicit or literal integer values (parsed textually from rtr.h / rtr_mgr.h)"],
        "floor": {"quick": 30, "thorough": 30},
        "exhaustive_note": "all declared enumerators of both enums are enumerated completely in every run",
        "technique": "property-based testing (rapidcheck) with an exhaustive enumerator sweep; name table vs header-derived oracle",
        "level_text": "Exhaustive over the declared enumerators, sampled over all other integers.",
        "level_note": "Header parsing is textual (regex) — a macro-generated enum would need the parser extended.",
        "stages": [{"driver": ENUMNAMES,
                    "quick": {"procs": 2, "rc": (600, 100)},
                    "thorough": {"procs": 8, "rc": (5000, 100), "timeout": 3600}}],
    },
    "C03": {
        "level": "exploration",
        "rule": "TODO",
        "assumptions": [],
        "floor": {"quick": 50, "thorough": 500},
        "technique": "model-based conversation testing",
        "level_text": "TODO", "level_note": "TODO",
        "stages": [{"driver": CONV,
                    "quick": {"procs": 8, "rc": (600, 100)},
                    "thorough": {"procs": 16, "rc": (10000, 100), "timeout": 7200}}],
    },
    "C05": {
        "level": "exploration",
        "rule": "TODO",
        "assumptions": [],
        "floor": {"quick": 50, "thorough": 500},
        "technique": "model-based conversation testing",
        "level_text": "TODO", "level_note": "TODO",
        "stages": [{"driver": CONV,
                    "quick": {"procs": 8, "rc": (600, 100)},
                    "thorough": {"procs": 16, "rc": (10000, 100), "timeout": 7200}}],
    },
    "C07": {
        "level": "exploration",
        "rule": "TODO",
        "assumptions": [],
        "floor": {"quick": 50, "thorough": 500},
        "technique": "model-based conversation testing",
        "level_text": "TODO", "level_note": "TODO",
        "stages": [{"driver": CONV,
                    "quick": {"procs": 8, "rc": (600, 100)},
                    "thorough": {"procs": 16, "rc": (10000, 100), "timeout": 7200}}],
    },
    "C08": {
        "level": "exploration",
        "rule": "TODO",
        "assumptions": [],
        "floor": {"quick": 50, "thorough": 500},
        "technique": "model-based conversation testing",
        "level_text": "TODO", "level_note": "TODO",
        "stages": [{"driver": CONV,
                    "quick": {"procs": 8, "rc": (600, 100)},
                    "thorough": {"procs": 16, "rc": (10000, 100), "timeout": 7200}}],
    },
    "C13": {
        "level": "exploration",
        "rule": "TODO",
        "assumptions": [],
        "floor": {"quick": 50, "thorough": 500},
        "technique": "model-based conversation testing",
        "level_text": "TODO", "level_note": "TODO",
        "stages": [{"driver": CONV,
                    "quick": {"procs": 8, "rc": (600, 100)},
                    "thorough": {"procs": 16, "rc": (10000, 100), "timeout": 7200}}],
    },
    "C14": {
        "level": "exploration",
        "rule": "TODO",
        "assumptions": [],
        "floor": {"quick": 50, "thorough": 500},
        "technique": "model-based conversation testing",
        "level_text": "TODO", "level_note": "TODO",
        "stages": [{"driver": CONV,
                    "quick": {"procs": 8, "rc": (600, 100)},
                    "thorough": {"procs": 16, "rc": (10000, 100), "timeout": 7200}}],
    },
    "C17": {
        "level": "exploration",
        "rule": "TODO",
        "assumptions": [],
        "floor": {"quick": 50, "thorough": 500},
        "technique": "model-based conversation testing",
        "level_text": "TODO", "level_note": "TODO",
        "stages": [{"driver": CONV,
                    "quick": {"procs": 8, "rc": (600, 100)},
                    "thorough": {"procs": 16, "rc": (10000, 100), "timeout": 7200}}],
    },
}
