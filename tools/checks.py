"""Per-property configuration of the checks (drivers, budgets, evidence wording)."""

SHIM = ["shim/shim.c"]


def drv(name, sources, flavour="asan", **kw):
    d = {"name": name, "sources": sources + SHIM, "flavour": flavour, "ldflags": "-lrapidcheck"}
    d.update(kw)
    return d


TABLES = drv("tables", ["props/tables.cpp"])
SPKI = drv("spki", ["props/spki.cpp"])
IPCONV = drv("ipconv", ["props/ipconv.cpp"])
ENUMNAMES = drv("enumnames", ["props/enumnames.cpp"])
BGPSEC = drv("bgpsec", ["props/bgpsec.cpp"], deps=["model/rfc8205.hpp"])
MGR = drv("mgr", ["props/mgr.cpp"], ldflags="-lrapidcheck -Wl,--wrap=rtr_start,--wrap=rtr_stop,--wrap=lrtr_dbg")
LOCKWRAPS = " -Wl,--wrap=pthread_rwlock_wrlock,--wrap=pthread_rwlock_rdlock,--wrap=pthread_rwlock_unlock"
CONC = drv("conc", ["props/conc.cpp"], ldflags="-lrapidcheck" + LOCKWRAPS)
CONC_TSAN = drv("conc_tsan", ["props/conc.cpp"], flavour="tsan", ldflags="-lrapidcheck" + LOCKWRAPS)
ALLOCFAIL = drv("allocfail", ["props/allocfail.cpp"])
WRAPS = " -Wl,--wrap=lrtr_get_monotonic_time,--wrap=sleep,--wrap=lrtr_dbg,--wrap=pthread_join"
INTERVALS = drv("intervals", ["props/intervals.cpp"], ldflags="-lrapidcheck -Wl,--wrap=lrtr_dbg")
CONV_FUZZ = {"name": "conv_fuzz", "sources": ["props/conv_fuzz.cpp", "engine/convsim.cpp", "shim/shim.c"], "flavour": "fuzz", "libfuzzer": True,
             "ldflags": WRAPS + LOCKWRAPS,
             "deps": ["engine/convsim.hpp", "engine/convsim_model.inc", "engine/convsim_mock.inc", "engine/convsim_run.inc", "engine/judge.hpp",
                      "engine/cache.hpp", "engine/script.hpp", "engine/wire.hpp", "engine/convsim_battery.inc", "engine/nontrivial.hpp"]}
CONV = drv("conv", ["props/conv.cpp", "engine/convsim.cpp"], ldflags="-lrapidcheck" + WRAPS + LOCKWRAPS,
           deps=["engine/convsim.hpp", "engine/convsim_model.inc", "engine/convsim_mock.inc", "engine/convsim_run.inc", "engine/judge.hpp",
                 "engine/cache.hpp", "engine/script.hpp", "engine/wire.hpp", "engine/convsim_battery.inc", "engine/nontrivial.hpp"])

CONV_GEN = "rapidcheck generates conversations for the simulator (engine/): a configuration (valid refresh/expire/retry, one of 4 interval modes, session id, serial base incl. values around 2^31 and 2^32-1, initial cache data, records of a second cache) and 0..14 steps, one per query the client completes. A step scripts: failing open() calls and time consumed in open(); how the query write behaves (whole / 1-3 byte partial writes / error / would-block / interrupted / partial-then-error); 0..2 data-version advances of the cache (toggles over a universe of 24 nested IPv4, 16 nested IPv6 records and 12 router keys, optional bulk families of 110..230 IPv4 /32, IPv6 /128 or router-key records for answers with more than 100 PDUs of a kind; payload PDUs optionally with a non-zero reserved octet), cache restarts; the response kind (correct / Cache Reset / Error Report with any code, version byte, text, encapsulated PDU, also mid-payload / no answer / one of 15 mutations of a correct response incl. a second mutation / version-0 answer / hostile-but-well-formed fields / raw bytes); recv chunking (whole, 1-byte, irregular, 7-byte); a transport fault inside the answer (error, hang-up, EINTR — the last one optionally with the rest of the answer still readable); an rtr_stop()+rtr_start() in the middle of the exchange (at the n-th transport call / table-lock release); and what happens when the client waits on an empty connection (timeout, EINTR also one second late, hang-up, transport error, Serial Notify, a stray PDU of six kinds while ESTABLISHED, stop+restart of the socket). After the last step the cache answers honestly. The real state machine (rtr_start -> rtr_fsm_start) runs on the mock transport with a simulated clock; an independent strict decoder + protocol model ('judge') decides what a correct client must conclude. "
CONV_A = ['the mock transport obeys the transport contract (never 0 bytes, never more than asked, errors as tcp_transport returns them)', 'clock = lrtr_get_monotonic_time and sleep() replaced at link time (--wrap); one FSM thread does all the work, so a run is a deterministic function of its script', 'the judge (engine/judge.hpp) is a correct reading of RFC 8210 framing and of the property statements; where the statement leaves room the weaker reading is used (DESIGN.md §10)']

ENGINES = [
    {"name": "rapidcheck-drivers", "path": "props/", "serves_properties": ["C01", "C02", "C09", "C10", "C11", "C12", "C15", "C16", "C18", "C19", "C20"],
     "kind_free_text": "C++17 rapidcheck drivers linked against rtrlib built from the working tree (ASan+UBSan subset, asserts on); model-based / stateful"},
]

ENGINES.append({"name": "convsim", "path": "engine/", "serves_properties": ["C03", "C05", "C07", "C08", "C13", "C14", "C17", "C09", "C10", "C04"],
                "kind_free_text": "conversation simulator: real rtr_fsm_start on a mock struct tr_socket, simulated clock (ld --wrap), scripted cache with mutations, independent judge/protocol model"})

NOT_APPLICABLE = {}

CHECKS = {
    "C01": {
        "level": "exploration",
        "rule": "rapidcheck generates operation histories (add / re-add / remove / near-miss remove / remove-by-source / nested chains / "
                "free) over a colliding universe of nested prefixes of 3 base addresses, both families, lengths 0..32/0..128, any "
                "max-length, AS in {0,1,2,3,65000,2^32-1}, 3 sources, with validation queries interleaved (stored prefix "
                "lengthened/shortened/sibling, host bits dirty or not, random). Oracle: RFC 6811 by linear scan over a std::set model, "
                "for pfx_table_validate, pfx_table_validate_r (+ reason multiset; the reason array of one query is handed to the next in half of the cases, NOT FOUND must clear it) and rtr_mgr_validate. evaluations = histories; "
                "non-trivial = a query with >=1 covering record issued after >=1 effective removal; distinct by hash(table contents, query).",
        "assumptions": ["stored records have host bits zero and length <= address width (constructed, as every caller does)",
                        "the reference model (model/pfx_model.hpp, 40 lines, linear scan) is correct"],
        "floor": {"quick": 500, "thorough": 5000},
        "technique": "model-based property testing (rapidcheck): differential against RFC 6811 by linear scan",
        "level_text": "Sampled exploration: tens of thousands of generated insert/remove histories per run, each followed by generated queries, "
                      "compared with an independent 40-line reference model. Finds order/shape-dependent lookup bugs and reachable assertions; "
                      "does not prove absence.",
        "level_note": "Trusts the std::set reference model and that stored records respect the table's precondition (host bits zero, length <= width).",
        "stages": [{"driver": TABLES,
                    "quick": {"procs": 8, "rc": (6000, 100)},
                    "thorough": {"procs": 16, "rc": (20000, 300), "timeout": 7200}}],
    },
    "C02": {
        "level": "exploration",
        "rule": "same generator as C01. After every operation the return code must equal the model's and the full enumeration of "
                "both families must equal the model set as a multiset. evaluations = histories; non-trivial = history containing a "
                "removal of the last record of a prefix that covers another stored prefix (node pull-up) or a remove-by-source that "
                "deletes >=1 and keeps >=1 record of the same family; distinct by hash of the whole history.",
        "assumptions": ["std::set model of the five-field record"],
        "floor": {"quick": 300, "thorough": 3000},
        "technique": "stateful model-based property testing (rapidcheck) against a std::set model, full-contents comparison after every operation",
        "level_text": "Sampled exploration of operation histories with an exact-contents oracle after every step (return codes + multiset equality of "
                      "the enumeration). Finds lost/duplicated/mis-attributed records for the histories generated; not a proof.",
        "level_note": "Trusts the std::set model; sources are compared by socket pointer identity as the library does.",
        "stages": [{"driver": TABLES,
                    "quick": {"procs": 8, "rc": (6000, 100)},
                    "thorough": {"procs": 16, "rc": (20000, 300), "timeout": 7200}}],
    },
    "C09": {
        "level": "exploration",
        "rule": "part (a): same table-operation generator as C02 with an update callback installed; a mirror set is updated only by the callback; "
                "'added' for a record the mirror holds or 'removed' for one it lacks fails at once; after every operation mirror == model == "
                "enumeration; after pfx_table_free the mirror must be empty; for the reload sequence (op W: copy_except_socket into a shadow table, load a new set, pfx_table_swap, pfx_table_notify_diff) the callbacks must be exactly the net difference - one 'added' per record of new minus old, one 'removed' per record of old minus new, nothing else. non-trivial = history with a remove-by-source over >=2 trie nodes, "
                "a free of a table holding >=2 records, or a node pull-up; distinct by hash of the history. "
                "part (b) (callbacks during rollback / reload incl. the net-difference rule / expiry / stop) is checked by the conversation simulator stage.",
        "assumptions": ["callbacks are delivered synchronously by the operation that causes them"],
        "floor": {"quick": 300, "thorough": 3000},
        "technique": "stateful property testing (rapidcheck): history invariant 'replay of the callback log == table contents'",
        "level_text": "Sampled exploration of operation histories with the change-log invariant evaluated after every operation.",
        "level_note": "Trusts the std::set model. Only single-threaded histories (the log is per table; ordering across threads is not part of the property).",
        "stages": [{"driver": TABLES,
                    "quick": {"procs": 8, "rc": (6000, 100)},
                    "thorough": {"procs": 16, "rc": (20000, 300), "timeout": 7200}}],
    },
    "C10": {
        "level": "exploration",
        "rule": "rapidcheck generates histories of add / re-add / near-duplicate add / remove / near-miss remove / remove-by-source / "
                "get_all / search_by_ski / bulk add (1..90 keys) / bulk delete / copy_except_socket / the reload sequence "
                "(copy aside, load new set, swap, notify_diff) over AS numbers that share tommy_inthash_u32 low bits, 4 SKIs and 3 SPKIs "
                "differing in single bytes, 3 sources. After every operation return codes, get_all (hash side) and search_by_ski (list side) "
                "and the callback mirror must equal a std::set model (full sweep over every AS x SKI after bulk/src/copy/swap operations and at the end); the callbacks of swap + notify_diff must be exactly the net difference of the reloading source. "
                "non-trivial = history that crosses >=1 hash-table grow step and >=1 shrink step and contains a remove-by-source or a swap; "
                "distinct by hash of the history.",
        "assumptions": ["std::set model of (AS, SKI, SPKI, source)", "grow/shrink steps are observed through the hash table's bucket_bit field (shim)"],
        "floor": {"quick": 100, "thorough": 1000},
        "technique": "stateful model-based property testing (rapidcheck) against a std::set model; callback-log invariant",
        "level_text": "Sampled exploration of operation histories with exact lookup/contents/callback oracles after every operation, "
                      "with generators aimed at bucket collisions and resize steps.",
        "level_note": "Trusts the std::set model. Lookups are compared as multisets of full records.",
        "stages": [{"driver": SPKI,
                    "quick": {"procs": 8, "rc": (1200, 100)},
                    "thorough": {"procs": 16, "rc": (8000, 250), "timeout": 7200}}],
    },
    "C19": {
        "level": "exploration",
        "rule": "IPv4: the full 12^4 grid of octet boundary values (exhaustive) plus generated addresses; IPv6: 8 words each drawn from "
                "{0 (x4), 1, 0xffff, random}, plus the embedded-IPv4 shapes (::a.b.c.d, ::ffff:a.b.c.d, 5-word zero prefix, ::, ::1); strings: "
                "inet_ntop output / library output / uncompressed / x:x:x:x:x:x:d.d.d.d forms with 0..n mutations (truncate, delete, duplicate, "
                "swap ':' and '.', upper-case, leading zero, extra group, second '::', drop colon, drop head). Oracles: to_str->str_to_addr and "
                "to_str->inet_pton are the identity; inet_pton accepts => library accepts with the same value; the same text parsed after two "
                "different stack/output dirtying patterns gives the same return code and address; to_str with every len 0..64 between canaries. "
                "non-trivial = IPv4 case, IPv6 address whose longest zero run (>=2) is not at position 0 or that prints in embedded-IPv4 form, "
                "or a string accepted by inet_pton or by the library; distinct by hash of the case.",
        "assumptions": ["glibc inet_pton / inet_ntop are the platform parser/formatter", "over-acceptance by the library (strings inet_pton rejects) is not a violation unless the result depends on stack contents"],
        "floor": {"quick": 5000, "thorough": 50000},
        "exhaustive_note": "IPv4 octet-boundary grid 12^4 = 20736 addresses enumerated completely in every run",
        "technique": "property-based testing (rapidcheck): round-trip + differential against inet_pton + metamorphic determinism check",
        "level_text": "Exhaustive over an IPv4 boundary grid, sampled over IPv6 shapes and mutated strings, with round-trip, differential and "
                      "determinism oracles; ASan + canaries for the buffer-length clause.",
        "level_note": "Trusts glibc's inet_pton/inet_ntop. Determinism is tested with two stack-dirtying patterns (0x00, 0xFF), not with MSan.",
        "stages": [{"driver": IPCONV,
                    "quick": {"procs": 8, "rc": (20000, 100)},
                    "thorough": {"procs": 16, "rc": (400000, 200), "timeout": 7200}}],
    },
    "C20": {
        "level": "exploration",
        "engine": "rapidcheck + fork-per-probe",
        "rule": "enumerators of enum rtr_socket_state / enum rtr_mgr_status are parsed from the public headers of the tree under test; every "
                "declared enumerator (exhaustive) must map to its own name; boundary values (-1, count, count+1, 255, 256, 65536, INT_MAX, INT_MIN, "
                "UINT_MAX) and generated integers must map to NULL; every probe runs in a forked child under ASan+UBSan(bounds) so a read "
                "outside the name table is a reported failure. Every probe is non-trivial (tiny domain); distinct by (function, value).",
        "assumptions": ["the enums are declared with implicit or literal integer values (parsed textually from rtr.h / rtr_mgr.h)"],
        "floor": {"quick": 30, "thorough": 30},
        "exhaustive_note": "all declared enumerators of both enums are enumerated completely in every run",
        "technique": "property-based testing (rapidcheck) with an exhaustive enumerator sweep; name table vs header-derived oracle",
        "level_text": "Exhaustive over the declared enumerators, sampled over all other integers.",
        "level_note": "Header parsing is textual (regex) — a macro-generated enum would need the parser extended.",
        "stages": [{"driver": ENUMNAMES,
                    "quick": {"procs": 2, "rc": (600, 100)},
                    "thorough": {"procs": 8, "rc": (5000, 100), "timeout": 3600}}],
    },
    "C03": {
        "level": "exploration",
        "engine": "convsim + rapidcheck",
        "rule": "rapidcheck generates conversations for the simulator (engine/): a configuration (valid refresh/expire/retry, one of 4 interval modes, session id, serial base incl. values around 2^31 and 2^32-1, initial cache data, records of a second cache) and 0..14 steps, one per query the client completes. A step scripts: failing open() calls and time consumed in open(); how the query write behaves (whole / 1-3 byte partial writes / error / would-block / interrupted / partial-then-error); 0..2 data-version advances of the cache (toggles over a universe of 24 nested IPv4, 16 nested IPv6 records and 12 router keys, optional bulk families of 110..230 IPv4 /32, IPv6 /128 or router-key records for answers with more than 100 PDUs of a kind; payload PDUs optionally with a non-zero reserved octet), cache restarts; the response kind (correct / Cache Reset / Error Report with any code, version byte, text, encapsulated PDU, also mid-payload / no answer / one of 15 mutations of a correct response incl. a second mutation / version-0 answer / hostile-but-well-formed fields / raw bytes); recv chunking (whole, 1-byte, irregular, 7-byte); a transport fault inside the answer (error, hang-up, EINTR — the last one optionally with the rest of the answer still readable); an rtr_stop()+rtr_start() in the middle of the exchange (at the n-th transport call / table-lock release); and what happens when the client waits on an empty connection (timeout, EINTR also one second late, hang-up, transport error, Serial Notify, a stray PDU of six kinds while ESTABLISHED, stop+restart of the socket). After the last step the cache answers honestly. The real state machine (rtr_start -> rtr_fsm_start) runs on the mock transport with a simulated clock; an independent strict decoder + protocol model ('judge') decides what a correct client must conclude. Oracle C03: at every observation point (each open(), each completed query, stop, end) the cache's records in both tables must equal one of the model's alternatives — after a success exactly old+announced-withdrawn (delta) / exactly the announced set (reset) with serial = End of Data's; after a failure exactly the records before with the same next query, or none and a Reset Query; a success on a response the judge calls faulty is a violation; records of the other cache never change. evaluations = conversations; non-trivial = a failed response after >=1 payload PDU had been applied (undo path), or a completed reload over existing data, or a successful delta with announcements and withdrawals; distinct by hash of the script.",
        "assumptions": ['the mock transport obeys the transport contract (never 0 bytes, never more than asked, errors as tcp_transport returns them)', 'clock = lrtr_get_monotonic_time and sleep() replaced at link time (--wrap); one FSM thread does all the work, so a run is a deterministic function of its script', 'the judge (engine/judge.hpp) is a correct reading of RFC 8210 framing and of the property statements; where the statement leaves room the weaker reading is used (DESIGN.md §10)'],
        "floor": {"quick": 40, "thorough": 400},
        "technique": 'model-based conversation testing (rapidcheck + simulator): history invariant over observation points, judge-decided either-or',
        "level_text": 'Sampled exploration of multi-exchange conversations with faults at every PDU position and transport call, checked against a protocol model at every observation point.',
        "level_note": "Trusts the judge and the record universe (52 ids + bulk). 'One response' is delimited as the client delimits it; after a fault the scripted cache stops unless the rest cannot be mistaken for a new response.",
        "stages": [{"driver": CONV,
                    "quick": {"procs": 8, "rc": (500, 100)},
                    "thorough": {"procs": 16, "rc": (5000, 100), "timeout": 7200}}],
    },
    "C05": {
        "level": "exploration",
        "engine": "convsim + rapidcheck",
        "rule": "rapidcheck generates conversations for the simulator (engine/): a configuration (valid refresh/expire/retry, one of 4 interval modes, session id, serial base incl. values around 2^31 and 2^32-1, initial cache data, records of a second cache) and 0..14 steps, one per query the client completes. A step scripts: failing open() calls and time consumed in open(); how the query write behaves (whole / 1-3 byte partial writes / error / would-block / interrupted / partial-then-error); 0..2 data-version advances of the cache (toggles over a universe of 24 nested IPv4, 16 nested IPv6 records and 12 router keys, optional bulk families of 110..230 IPv4 /32, IPv6 /128 or router-key records for answers with more than 100 PDUs of a kind; payload PDUs optionally with a non-zero reserved octet), cache restarts; the response kind (correct / Cache Reset / Error Report with any code, version byte, text, encapsulated PDU, also mid-payload / no answer / one of 15 mutations of a correct response incl. a second mutation / version-0 answer / hostile-but-well-formed fields / raw bytes); recv chunking (whole, 1-byte, irregular, 7-byte); a transport fault inside the answer (error, hang-up, EINTR — the last one optionally with the rest of the answer still readable); an rtr_stop()+rtr_start() in the middle of the exchange (at the n-th transport call / table-lock release); and what happens when the client waits on an empty connection (timeout, EINTR also one second late, hang-up, transport error, Serial Notify, a stray PDU of six kinds while ESTABLISHED, stop+restart of the socket). After the last step the cache answers honestly. The real state machine (rtr_start -> rtr_fsm_start) runs on the mock transport with a simulated clock; an independent strict decoder + protocol model ('judge') decides what a correct client must conclude. Oracle C05: every completed query must be the one the model predicts — Reset Query iff no session is established (initially, after Cache Reset, error code 2, expiry, stop/start, or the purge alternative), else Serial Query with exactly the session and serial of the last exchange completed by End of Data; a Cache Response / End of Data with a foreign session must not lead to success. non-trivial = >=3 queries incl. a Serial Query after a failed exchange, or a session-mismatch response, or a stop/start cycle; distinct by hash of the script.",
        "assumptions": ['the mock transport obeys the transport contract (never 0 bytes, never more than asked, errors as tcp_transport returns them)', 'clock = lrtr_get_monotonic_time and sleep() replaced at link time (--wrap); one FSM thread does all the work, so a run is a deterministic function of its script', 'the judge (engine/judge.hpp) is a correct reading of RFC 8210 framing and of the property statements; where the statement leaves room the weaker reading is used (DESIGN.md §10)'],
        "floor": {"quick": 40, "thorough": 400},
        "technique": 'model-based conversation testing (rapidcheck + simulator): every outbound query compared with the protocol model',
        "level_text": "Sampled exploration of conversations; every query PDU on the wire is compared with the model's prediction.",
        "level_note": 'Trusts the judge; serial arithmetic is exercised around 2^31 and 2^32-1 through the serial bases.',
        "stages": [{"driver": CONV,
                    "quick": {"procs": 8, "rc": (500, 100)},
                    "thorough": {"procs": 16, "rc": (5000, 100), "timeout": 7200}}],
    },
    "C07": {
        "level": "exploration",
        "engine": "convsim + rapidcheck",
        "rule": "rapidcheck generates conversations for the simulator (engine/): a configuration (valid refresh/expire/retry, one of 4 interval modes, session id, serial base incl. values around 2^31 and 2^32-1, initial cache data, records of a second cache) and 0..14 steps, one per query the client completes. A step scripts: failing open() calls and time consumed in open(); how the query write behaves (whole / 1-3 byte partial writes / error / would-block / interrupted / partial-then-error); 0..2 data-version advances of the cache (toggles over a universe of 24 nested IPv4, 16 nested IPv6 records and 12 router keys, optional bulk families of 110..230 IPv4 /32, IPv6 /128 or router-key records for answers with more than 100 PDUs of a kind; payload PDUs optionally with a non-zero reserved octet), cache restarts; the response kind (correct / Cache Reset / Error Report with any code, version byte, text, encapsulated PDU, also mid-payload / no answer / one of 15 mutations of a correct response incl. a second mutation / version-0 answer / hostile-but-well-formed fields / raw bytes); recv chunking (whole, 1-byte, irregular, 7-byte); a transport fault inside the answer (error, hang-up, EINTR — the last one optionally with the rest of the answer still readable); an rtr_stop()+rtr_start() in the middle of the exchange (at the n-th transport call / table-lock release); and what happens when the client waits on an empty connection (timeout, EINTR also one second late, hang-up, transport error, Serial Notify, a stray PDU of six kinds while ESTABLISHED, stop+restart of the socket). After the last step the cache answers honestly. The real state machine (rtr_start -> rtr_fsm_start) runs on the mock transport with a simulated clock; an independent strict decoder + protocol model ('judge') decides what a correct client must conclude. Oracle C07: at every open() entry, if more than expire_interval (read from the socket) has passed on the simulated clock since the last success the model saw, no record of the socket may remain and the next query must be a Reset Query; after every rtr_stop (while the state machine waits, in the middle of an exchange incl. the application of a payload, and the final one) no record of the socket remains (counted without the model, so also after hostile payload) and the state is CLOSED; the other cache's records are intact. non-trivial = an open() later than expire after >=1 success, or a stop/start cycle; distinct by hash of the script.",
        "assumptions": ['the mock transport obeys the transport contract (never 0 bytes, never more than asked, errors as tcp_transport returns them)', 'clock = lrtr_get_monotonic_time and sleep() replaced at link time (--wrap); one FSM thread does all the work, so a run is a deterministic function of its script', 'the judge (engine/judge.hpp) is a correct reading of RFC 8210 framing and of the property statements; where the statement leaves room the weaker reading is used (DESIGN.md §10)'],
        "floor": {"quick": 40, "thorough": 400},
        "technique": 'model-based conversation testing with an owned clock: expiry/stop invariants at every open() and stop',
        "level_text": 'Sampled exploration of unreachability patterns (failed opens, slow opens up to 2x expire, timeouts, interrupted reloads) under all interval settings.',
        "level_note": "last_success is the model's (time of the last ESTABLISHED callback), not the socket's field, so a lost timestamp is visible.",
        "stages": [{"driver": CONV,
                    "quick": {"procs": 8, "rc": (500, 100)},
                    "thorough": {"procs": 16, "rc": (5000, 100), "timeout": 7200}}],
    },
    "C08": {
        "level": "exploration",
        "engine": "convsim + rapidcheck",
        "rule": "rapidcheck generates conversations for the simulator (engine/): a configuration (valid refresh/expire/retry, one of 4 interval modes, session id, serial base incl. values around 2^31 and 2^32-1, initial cache data, records of a second cache) and 0..14 steps, one per query the client completes. A step scripts: failing open() calls and time consumed in open(); how the query write behaves (whole / 1-3 byte partial writes / error / would-block / interrupted / partial-then-error); 0..2 data-version advances of the cache (toggles over a universe of 24 nested IPv4, 16 nested IPv6 records and 12 router keys, optional bulk families of 110..230 IPv4 /32, IPv6 /128 or router-key records for answers with more than 100 PDUs of a kind; payload PDUs optionally with a non-zero reserved octet), cache restarts; the response kind (correct / Cache Reset / Error Report with any code, version byte, text, encapsulated PDU, also mid-payload / no answer / one of 15 mutations of a correct response incl. a second mutation / version-0 answer / hostile-but-well-formed fields / raw bytes); recv chunking (whole, 1-byte, irregular, 7-byte); a transport fault inside the answer (error, hang-up, EINTR — the last one optionally with the rest of the answer still readable); an rtr_stop()+rtr_start() in the middle of the exchange (at the n-th transport call / table-lock release); and what happens when the client waits on an empty connection (timeout, EINTR also one second late, hang-up, transport error, Serial Notify, a stray PDU of six kinds while ESTABLISHED, stop+restart of the socket). After the last step the cache answers honestly. The real state machine (rtr_start -> rtr_fsm_start) runs on the mock transport with a simulated clock; an independent strict decoder + protocol model ('judge') decides what a correct client must conclude. Oracle C08: once the script is used up the cache answers every query correctly (Cache Reset for a foreign session / unknown serial); the client must reach ESTABLISHED with records equal to the cache's data within expire+refresh+4*retry+600 s of simulated time, must never make 20000 transport calls without clock progress or input consumption, and must not complete 25 successful exchanges without converging. non-trivial = >=2 failed exchanges, >=1 success and convergence observed; distinct by hash of the script.",
        "assumptions": ['the mock transport obeys the transport contract (never 0 bytes, never more than asked, errors as tcp_transport returns them)', 'clock = lrtr_get_monotonic_time and sleep() replaced at link time (--wrap); one FSM thread does all the work, so a run is a deterministic function of its script', 'the judge (engine/judge.hpp) is a correct reading of RFC 8210 framing and of the property statements; where the statement leaves room the weaker reading is used (DESIGN.md §10)'],
        "floor": {"quick": 40, "thorough": 400},
        "technique": 'fault-schedule generation (rapidcheck) + bounded-time convergence oracle under a simulated clock',
        "level_text": 'Liveness decided as bounded-time convergence after a finite generated fault prefix; sampled over fault schedules.',
        "level_note": "Hitting the 80000-call step cap is counted as inconclusive, never as a violation. In conversations that went 'weak' (hostile payload) only termination is required.",
        "stages": [{"driver": CONV,
                    "quick": {"procs": 8, "rc": (500, 100)},
                    "thorough": {"procs": 16, "rc": (5000, 100), "timeout": 7200}}],
    },
    "C13": {
        "level": "exploration",
        "engine": "convsim + rapidcheck",
        "rule": "rapidcheck generates conversations for the simulator (engine/): a configuration (valid refresh/expire/retry, one of 4 interval modes, session id, serial base incl. values around 2^31 and 2^32-1, initial cache data, records of a second cache) and 0..14 steps, one per query the client completes. A step scripts: failing open() calls and time consumed in open(); how the query write behaves (whole / 1-3 byte partial writes / error / would-block / interrupted / partial-then-error); 0..2 data-version advances of the cache (toggles over a universe of 24 nested IPv4, 16 nested IPv6 records and 12 router keys, optional bulk families of 110..230 IPv4 /32, IPv6 /128 or router-key records for answers with more than 100 PDUs of a kind; payload PDUs optionally with a non-zero reserved octet), cache restarts; the response kind (correct / Cache Reset / Error Report with any code, version byte, text, encapsulated PDU, also mid-payload / no answer / one of 15 mutations of a correct response incl. a second mutation / version-0 answer / hostile-but-well-formed fields / raw bytes); recv chunking (whole, 1-byte, irregular, 7-byte); a transport fault inside the answer (error, hang-up, EINTR — the last one optionally with the rest of the answer still readable); an rtr_stop()+rtr_start() in the middle of the exchange (at the n-th transport call / table-lock release); and what happens when the client waits on an empty connection (timeout, EINTR also one second late, hang-up, transport error, Serial Notify, a stray PDU of six kinds while ESTABLISHED, stop+restart of the socket). After the last step the cache answers honestly. The real state machine (rtr_start -> rtr_fsm_start) runs on the mock transport with a simulated clock; an independent strict decoder + protocol model ('judge') decides what a correct client must conclude. Oracle C13: the model version starts at 1 and is lowered only by (a) a non-error first PDU of a connection with version 0, (b) an Unsupported-Version report with a lower supported version (then open() must follow with no clock progress), (c) a hang-up without any byte while no session exists (must lower) / other hang-ups without session before the client has accepted an answer PDU other than a Serial Notify (may lower; after that it must not). After (a) a complete valid answer on a fault-free transport must be accepted in the same exchange. A wrong-version PDU must be reported with code 8. Every PDU the client sends must carry the model version; a success on a response with a wrong-version PDU or an End of Data in the other version's format is a violation. non-trivial = a conversation with a downgrade or a wrong-version PDU; distinct by hash of the script.",
        "assumptions": ['the mock transport obeys the transport contract (never 0 bytes, never more than asked, errors as tcp_transport returns them)', 'clock = lrtr_get_monotonic_time and sleep() replaced at link time (--wrap); one FSM thread does all the work, so a run is a deterministic function of its script', 'the judge (engine/judge.hpp) is a correct reading of RFC 8210 framing and of the property statements; where the statement leaves room the weaker reading is used (DESIGN.md §10)'],
        "floor": {"quick": 40, "thorough": 400},
        "technique": 'model-based conversation testing: version byte of every sent PDU vs the model, downgrade triggers generated',
        "level_text": 'Sampled exploration over version bytes 0/1/2/255 on every PDU position, error reports with code 4, hang-ups, over several reconnects.',
        "level_note": 'Not demanded: lowering on a first PDU that is an Error Report (ambiguous in the statement).',
        "stages": [{"driver": CONV,
                    "quick": {"procs": 8, "rc": (500, 100)},
                    "thorough": {"procs": 16, "rc": (5000, 100), "timeout": 7200}}],
    },
    "C14": {
        "level": "exploration",
        "engine": "convsim + rapidcheck",
        "rule": "rapidcheck generates conversations for the simulator (engine/): a configuration (valid refresh/expire/retry, one of 4 interval modes, session id, serial base incl. values around 2^31 and 2^32-1, initial cache data, records of a second cache) and 0..14 steps, one per query the client completes. A step scripts: failing open() calls and time consumed in open(); how the query write behaves (whole / 1-3 byte partial writes / error / would-block / interrupted / partial-then-error); 0..2 data-version advances of the cache (toggles over a universe of 24 nested IPv4, 16 nested IPv6 records and 12 router keys, optional bulk families of 110..230 IPv4 /32, IPv6 /128 or router-key records for answers with more than 100 PDUs of a kind; payload PDUs optionally with a non-zero reserved octet), cache restarts; the response kind (correct / Cache Reset / Error Report with any code, version byte, text, encapsulated PDU, also mid-payload / no answer / one of 15 mutations of a correct response incl. a second mutation / version-0 answer / hostile-but-well-formed fields / raw bytes); recv chunking (whole, 1-byte, irregular, 7-byte); a transport fault inside the answer (error, hang-up, EINTR — the last one optionally with the rest of the answer still readable); an rtr_stop()+rtr_start() in the middle of the exchange (at the n-th transport call / table-lock release); and what happens when the client waits on an empty connection (timeout, EINTR also one second late, hang-up, transport error, Serial Notify, a stray PDU of six kinds while ESTABLISHED, stop+restart of the socket). After the last step the cache answers honestly. The real state machine (rtr_start -> rtr_fsm_start) runs on the mock transport with a simulated clock; an independent strict decoder + protocol model ('judge') decides what a correct client must conclude. Oracle C14: the bytes handed to send() (under whole and 1-3 byte partial writes) must parse into complete PDUs of type 1/2/10 with the model version, length field = bytes <= own maximum; for each Error Report 16+enc+text = length, text printable, the encapsulated bytes are a byte-exact substring of what the cache sent on this connection and not an Error Report; for a single judge-tagged violation after which the cache fell silent: exactly one report, with the class's code (too short/long/size/flags/session/unexpected 0, version 8, duplicate 7, unknown withdrawal 6, unknown type 0 or 5) and a non-empty encapsulated PDU that is a byte-exact prefix of the offender; no report on a valid accepted response. non-trivial = conversation in which the client sent >=1 Error Report; distinct by hash of the script.",
        "assumptions": ['the mock transport obeys the transport contract (never 0 bytes, never more than asked, errors as tcp_transport returns them)', 'clock = lrtr_get_monotonic_time and sleep() replaced at link time (--wrap); one FSM thread does all the work, so a run is a deterministic function of its script', 'the judge (engine/judge.hpp) is a correct reading of RFC 8210 framing and of the property statements; where the statement leaves room the weaker reading is used (DESIGN.md §10)'],
        "floor": {"quick": 40, "thorough": 400},
        "technique": 'model-based conversation testing: outbound byte log parsed by an independent decoder; tagged-violation completeness',
        "level_text": 'Sampled exploration of violation class x PDU type x position with soundness (all conversations) and completeness (tagged single violations) oracles.',
        "level_note": 'Uninitialised bytes are looked for by the printable-text rule and by the dirty-pattern determinism stage (stack/heap filled with 0x00 vs 0xFF), not with MSan.',
        "stages": [{"driver": CONV,
                    "quick": {"procs": 8, "rc": (500, 100)},
                    "thorough": {"procs": 16, "rc": (5000, 100), "timeout": 7200}}],
    },
    "C17": {
        "level": "exploration",
        "engine": "convsim + rapidcheck",
        "rule": "rapidcheck generates conversations for the simulator (engine/): a configuration (valid refresh/expire/retry, one of 4 interval modes, session id, serial base incl. values around 2^31 and 2^32-1, initial cache data, records of a second cache) and 0..14 steps, one per query the client completes. A step scripts: failing open() calls and time consumed in open(); how the query write behaves (whole / 1-3 byte partial writes / error / would-block / interrupted / partial-then-error); 0..2 data-version advances of the cache (toggles over a universe of 24 nested IPv4, 16 nested IPv6 records and 12 router keys, optional bulk families of 110..230 IPv4 /32, IPv6 /128 or router-key records for answers with more than 100 PDUs of a kind; payload PDUs optionally with a non-zero reserved octet), cache restarts; the response kind (correct / Cache Reset / Error Report with any code, version byte, text, encapsulated PDU, also mid-payload / no answer / one of 15 mutations of a correct response incl. a second mutation / version-0 answer / hostile-but-well-formed fields / raw bytes); recv chunking (whole, 1-byte, irregular, 7-byte); a transport fault inside the answer (error, hang-up, EINTR — the last one optionally with the rest of the answer still readable); an rtr_stop()+rtr_start() in the middle of the exchange (at the n-th transport call / table-lock release); and what happens when the client waits on an empty connection (timeout, EINTR also one second late, hang-up, transport error, Serial Notify, a stray PDU of six kinds while ESTABLISHED, stop+restart of the socket). After the last step the cache answers honestly. The real state machine (rtr_start -> rtr_fsm_start) runs on the mock transport with a simulated clock; an independent strict decoder + protocol model ('judge') decides what a correct client must conclude. Oracle C17: after every success the socket's (refresh, retry, expire) must equal the value the interval mode prescribes for what End of Data carried (values from a table of all range boundaries +-1, 0, 2^32-1); after a failure that read a well-formed End of Data either the previous or the prescribed values; version-0 End of Data changes nothing; in ESTABLISHED the first recv timeout must equal max(0, last_success+refresh-now); after a timeout or a Serial Notify the next transport call must be the send of a Serial Query. rtr_init's range check is decided by the intervals driver stage. non-trivial = End of Data with a field outside or on the boundary of its range, or a Serial Notify / refresh expiry in ESTABLISHED; distinct by hash of the script.",
        "assumptions": ['the mock transport obeys the transport contract (never 0 bytes, never more than asked, errors as tcp_transport returns them)', 'clock = lrtr_get_monotonic_time and sleep() replaced at link time (--wrap); one FSM thread does all the work, so a run is a deterministic function of its script', 'the judge (engine/judge.hpp) is a correct reading of RFC 8210 framing and of the property statements; where the statement leaves room the weaker reading is used (DESIGN.md §10)'],
        "floor": {"quick": 40, "thorough": 400},
        "technique": 'model-based conversation testing + boundary-value generation for End of Data intervals; exact timeout oracle under an owned clock',
        "level_text": 'Sampled exploration over boundary interval values x 4 modes x 2 versions within whole conversations.',
        "level_note": 'The per-field application order inside the library (expire, refresh, retry) is tolerated for failed exchanges.',
        "stages": [{"driver": CONV,
                    "quick": {"procs": 8, "rc": (500, 100)},
                    "thorough": {"procs": 16, "rc": (5000, 100), "timeout": 7200}}],
    },
    "C11": {
        "level": "exploration",
        "rule": "rapidcheck generates BGPsec updates: 1..8 hops (thorough: up to 40) with arbitrary pCount/flags, AS numbers from a pool incl. 0 and 2^32-1, P-256 keys from a pool of 6 "
                "(SKIs shared between keys), IPv4 NLRI of every length 0..32 and IPv6 0..128 with random bits, per-hop key-table shapes (right key under the right AS; plus decoys and garbage under the same SKI; "
                "right key only under another AS; garbage only; no key; right key under two AS numbers), optionally one single-bit corruption of a signed field (target AS, pCount, flags, AS, AFI, SAFI, NLRI length/bits, SKI, signature, algorithm suite), "
                "a segment-count mismatch in either direction (one Signature Segment or one Secure_Path Segment too few), an unsupported suite or AFI. Every hop is signed by the harness over the RFC 8205 section 4.2 octets built from the harness's own path representation (model/rfc8205.hpp, EVP_DigestSign). "
                "Oracle: VALID iff for every hop some table key with the hop's SKI AND AS verifies (EVP_DigestVerify); the four specific codes where the property names them; rtr_mgr_bgpsec_validate_as_path must give the same answer as rtr_bgpsec_validate_as_path. "
                "non-trivial = >=3 hops, or IPv6, or NLRI length not a multiple of 8, or >=2 keys under one SKI; distinct by hash of the case.",
        "assumptions": ["OpenSSL's ECDSA/SHA-256 primitive is shared with the library (only the primitive: digest layout, key selection and hop iteration are independent)",
                        "keys and signatures are regenerated on replay (ECDSA is randomised); the verdict is a function of the case structure"],
        "floor": {"quick": 300, "thorough": 3000},
        "technique": "differential property testing (rapidcheck) against an independent RFC 8205 digest + EVP verification; metamorphic single-bit corruption",
        "level_text": "Sampled exploration over path shapes, NLRI lengths, key-table shapes and single-bit corruptions with an independent reference implementation as oracle.",
        "level_note": "Shares only OpenSSL's primitive with the library. Paths up to 8 hops in the quick tier, 40 in the thorough tier.",
        "stages": [{"driver": BGPSEC,
                    "quick": {"procs": 8, "rc": (2500, 100)},
                    "thorough": {"procs": 16, "rc": (5000, 100), "timeout": 7200}}],
    },
    "C12": {
        "level": "exploration",
        "rule": "same generators as C11, but each hop is signed by rtr_bgpsec_generate_signature (odd hops: rtr_mgr_bgpsec_generate_signature) with the hop's DER private key (originations and forwardings, hop by hop); optionally the last hop gets a damaged key (truncated / one bit flipped), "
                "a wrong segment count (one Secure_Path segment too many, or the signer's own segment missing), an unsupported suite or AFI. Oracle: the returned segment is one well-formed DER ECDSA signature of <= 72 bytes, it verifies over the independently built RFC 8205 octets under the matching public key (EVP_DigestVerify), "
                "and the path built from all generated signatures validates VALID; error cases give LOAD_PRIV_KEY_ERROR / UNSUPPORTED_ALGORITHM_SUITE / UNSUPPORTED_AFI / WRONG_SEGMENT_COUNT. non-trivial as C11.",
        "assumptions": ["as C11", "a bit flip that leaves a key OpenSSL still loads and validates is not an 'unloadable key'"],
        "floor": {"quick": 300, "thorough": 3000},
        "technique": "differential property testing (rapidcheck): library signatures verified by an independent RFC 8205 implementation",
        "level_text": "Sampled exploration; each generated signature is checked by a second implementation of the digest, so a self-consistent but non-interoperable layout is visible.",
        "level_note": "Shares only OpenSSL's primitive with the library.",
        "stages": [{"driver": BGPSEC,
                    "quick": {"procs": 8, "rc": (4000, 100)},
                    "thorough": {"procs": 16, "rc": (8000, 100), "timeout": 7200}}],
    },
    "C15": {
        "level": "exploration",
        "rule": "rapidcheck generates configurations of 0..3 groups x 0..2 sockets with preferences from {1,2,3,5,9,200} (duplicates and empty groups occur and must be rejected by rtr_mgr_init) and histories of "
                "socket state changes drawn from the socket state machine's successor relation (CONNECTING/RESET/SYNC/ESTABLISHED with last_update set/the error states/FAST_RECONNECT, expiry clearing last_update), "
                "rtr_mgr_add_group (used and unused preferences), rtr_mgr_remove_group (existing, unknown, last), rtr_mgr_stop. rtr_start/rtr_stop are link-time mocks that record the call and reproduce the real ones' visible effects; "
                "events are injected with the real rtr_change_socket_state so the real rtr_mgr_cb runs. Invariants after every operation: ascending order of for_each_group / get_first_group; a group becomes ESTABLISHED only if every socket has "
                "last_update != 0; then every less preferred group is CLOSED, was reported CLOSED and has no running socket; stops caused by a socket of group g only hit groups less preferred than g; when a group enters ERROR with no group ESTABLISHED "
                "the most preferred closed group - every one of its sockets - and only that group is started. non-trivial = history in which a failover closed a less preferred active group or an ERROR triggered a start; distinct by hash of the case.",
        "assumptions": ["the mocks of rtr_start/rtr_stop reproduce state, thread_id, last_update and the SHUTDOWN callback of the real functions (rtr.c)",
                        "socket events follow the successor relation of rtr_fsm_start; sockets without a running thread produce no events"],
        "floor": {"quick": 300, "thorough": 3000},
        "technique": "stateful property testing (rapidcheck) with invariants over the status-callback / start / stop stream",
        "level_text": "Sampled exploration of configurations and event histories with the property's sentences as invariants evaluated after every event.",
        "level_note": "Single-threaded; the manager's own locking is not exercised here.",
        "stages": [{"driver": MGR,
                    "quick": {"procs": 8, "rc": (12000, 60)},
                    "thorough": {"procs": 16, "rc": (250000, 100), "timeout": 7200}}],
    },
    "C16": {
        "level": "exploration",
        "engine": "rapidcheck + pthreads (ASan and TSan flavours)",
        "rule": "rapidcheck generates writer programs (add/remove/remove-by-source on a prefix table over 40 nested IPv4/IPv6 records x 3 sources and on a router-key table over 40 keys) and a reader count. "
                "Stage det (deterministic): the rwlock calls are wrapped; at every point where the writer has just released a table's write lock the whole battery of 55 queries (validate_r incl. reasons, both enumerations, get_all, search_by_ski) "
                "is evaluated in place and each answer must equal the model's answer before or after the operation in progress — every reader-observable state between critical sections, enumerated. "
                "Stage thr (ASan): 2/4/8 reader threads loop over the battery while the writer runs the program, 3 rounds per program with case-derived yields at lock calls; each answer must match the model in some state k in [finished-before-call, started-after-call]. "
                "Stage thr (TSan): same, any ThreadSanitizer report is a violation. non-trivial = (det) a program with an operation that has more than one unlock point, (thr) a program during which reader calls overlapped a write; distinct by hash of the program and stage.",
        "assumptions": ["det stage: every mutation happens under the write lock (that is what the TSan stage examines)", "thr stages sample OS schedules; a replay reproduces the program, not the schedule (re-run up to 30 times)"],
        "floor": {"quick": 100, "thorough": 1000},
        "technique": "property-based concurrency testing: lock-release-point enumeration against a sequential model + threaded linearizability oracle + ThreadSanitizer",
        "level_text": "Exhaustive (per generated program) over the states observable between critical sections; sampled over real interleavings with a linearizability oracle and happens-before race detection.",
        "level_note": "Cannot show absence of a bad interleaving inside correctly locked sections (none can exist) nor of races the sampled schedules never overlap; TSan needs only an overlap, not the bad outcome.",
        "stages": [{"driver": CONC, "args": ["--mode", "det"],
                    "quick": {"procs": 6, "rc": (400, 80)}, "thorough": {"procs": 16, "rc": (8000, 200), "timeout": 7200}},
                   {"driver": CONC, "args": ["--mode", "thr"], "replay_tries": 30, "replay_need": 1, "ddmin": False,
                    "quick": {"procs": 4, "rc": (50, 100)}, "thorough": {"procs": 8, "rc": (2000, 200), "timeout": 7200}},
                   {"driver": CONC_TSAN, "args": ["--mode", "thr"], "replay_tries": 30, "replay_need": 1, "ddmin": False,
                    "quick": {"procs": 4, "rc": (40, 100)}, "thorough": {"procs": 8, "rc": (2000, 200), "timeout": 7200}}],
    },
    "C18": {
        "level": "fault_enumeration",
        "engine": "rapidcheck + per-fault re-execution",
        "rule": "stage tables: rapidcheck generates histories (<= 24 operations) of prefix-table add/remove/remove-by-source/validate-with-reasons and router-key add/remove/remove-by-source/get_all/search_by_ski/bulk add of 28..44 keys "
                "(crossing the hash table's grow steps)/bulk delete/the reload sequence (copy_except_socket + swap). A counting allocator installed with lrtr_set_alloc_functions keeps a ledger of live blocks. Run 0 counts the N allocations and requires "
                "that after the tables are freed the ledger is empty and no unknown block was passed to free. Then for EVERY k in 1..N the history is re-run (fresh tables, fresh model) with allocation k returning NULL once: the run must not crash (ASan/UBSan, asserts on); the call during which the failure "
                "happened must either report an error and leave the table equal to the model without that call, or succeed with its full effect; every later call must agree with the model, and no block unknown to the allocator (released twice) may reach its free()/realloc(). evaluations = histories + injected failures; "
                "non-trivial = (history, k) pairs in which allocation k is not the first allocation of its operation (the failure hits a half-done operation); distinct by (history hash, index).",
        "assumptions": ["std::set models of both tables", "exhaustive over k for each generated history; histories are sampled"],
        "floor": {"quick": 30, "thorough": 300},
        "exhaustive_note": "for each generated history every allocation index 1..N is failed in turn (complete enumeration of single-failure placements for that history)",
        "technique": "fault enumeration: k-th-allocation-fails for every k over rapidcheck-generated histories, model-based no-partial-effect oracle, allocator ledger",
        "level_text": "Exhaustive single-fault enumeration per history (every allocation site reached, failed one at a time), histories sampled; allocator pairing checked with a ledger.",
        "level_note": "Only single failures (one NULL per run). The synchronisation part (temporary PDU stores, shadow tables inside rtr_sync) is covered by the conversation stage.",
        "stages": [{"driver": ALLOCFAIL,
                    "quick": {"procs": 8, "rc": (25, 50)},
                    "thorough": {"procs": 16, "rc": (150, 80), "timeout": 7200}}],
    },
    "C06": {
        "level": "exploration",
        "engine": "convsim + rapidcheck",
        "rule": CONV_GEN + "Oracle C06 (reader battery): whenever a full reload runs over existing data (from the moment a Cache Reset is delivered to a client that holds unexpired data, or a Reset Query is sent while the socket holds records, until the reload has succeeded or failed), a battery of 80 route validations and 15 router-key lookups covering every record of the universe "
                "is evaluated in place inside every transport call, inside every update callback issued without a table lock, and at every point where the synchronising thread has just released a lock of a live table (rwlock calls wrapped) — i.e. at every table state a "
                "single-call reader can observe. Per table, the sequence of distinct answers inside that window must have at most two elements (complete old set, then complete final set): a third state (empty, half loaded, new-then-old) is a violation. "
                "non-trivial = a conversation in which a reload replaced a table's visible contents in exactly one step; distinct by hash of the script.",
        "assumptions": CONV_A + ["readers hold the read lock for a whole call, so the states observable by a reader are those that exist when the synchronising thread holds no write lock (that all mutations happen under the lock is C16's TSan stage)",
                                  "cross-table order (prefix table vs router-key table) is not constrained: the two swaps are separate critical sections"],
        "floor": {"quick": 20, "thorough": 200},
        "technique": "model-free history invariant over every reader-observable state during generated reloads (lock-release-point enumeration in the conversation simulator)",
        "level_text": "Exhaustive, per generated reload, over the table states a reader can observe (transport calls, callbacks, lock releases); reloads and data sets are sampled by rapidcheck.",
        "level_note": "Deterministic single-threaded observation; real reader threads against a reload are not run here (lock discipline is examined by C16).",
        "stages": [{"driver": CONV,
                    "quick": {"procs": 8, "rc": (300, 100)},
                    "thorough": {"procs": 16, "rc": (4000, 100), "timeout": 7200}}],
    },
    "C04": {
        "level": "exploration",
        "engine": "convsim + libFuzzer + rapidcheck",
        "rule": CONV_GEN + "C04 uses three stages. (1) rapidcheck conversations with emphasis on raw byte responses, hostile-but-well-formed fields and framing mutations, reader battery on (validations and key lookups on the tables after hostile payload was applied, so assertions downstream of a decoded PDU are reached). "
                "(2) chunking metamorphosis: every conversation is run twice — scripted read/write chunking (1-byte, irregular, 7-byte reads; 1-3 byte writes) vs largest chunks — and table contents, state sequence, socket fields and sent bytes must be identical. "
                "(3) libFuzzer (ASan+UBSan, -fsanitize=fuzzer) over the byte encoding of scripts (every byte string decodes to a script; half of the workers start from an empty corpus). Oracles in all stages: no sanitizer report, no assertion (asserts are on), the state machine always comes back to the transport "
                "(20000-calls-without-progress guard, 120 s wall-clock hang guard), and a response in which the judge finds a PDU that is too short, too long, size-inconsistent with its type or of unknown type before a valid End of Data must not end in success (nothing of it in the tables is checked by the either-or of C03 at the next observation point). "
                "non-trivial = a conversation with a framing fault, hostile/raw payload or short reads; distinct by hash of the script (rapidcheck stages) / of the input (libFuzzer stage).",
        "assumptions": CONV_A + ["UBSan is restricted to bounds/null/object-size/return/unreachable: misaligned access and shifts are not 'invalid memory accesses' in the sense of the property (DESIGN.md §4)",
                                 "libFuzzer runs are pinned by -seed and -runs but remain only approximately reproducible; the saved input is the reproducible unit"],
        "floor": {"quick": 40, "thorough": 400},
        "technique": "coverage-guided fuzzing (libFuzzer) with semantic oracles in the target + property-based conversation testing + chunking metamorphic relation",
        "level_text": "Sampled exploration by three complementary searches over byte streams, chunkings and fault placements; memory safety by ASan/UBSan with assertions enabled.",
        "level_note": "A wall-clock limit or a libFuzzer timeout/oom artifact is counted as inconclusive, never as a violation.",
        "stages": [{"driver": CONV,
                    "quick": {"procs": 6, "rc": (250, 100)},
                    "thorough": {"procs": 16, "rc": (5000, 100), "timeout": 7200}},
                   {"driver": CONV, "args": ["--mode", "chunk"],
                    "quick": {"procs": 4, "rc": (200, 100)},
                    "thorough": {"procs": 16, "rc": (3000, 100), "timeout": 7200}},
                   {"type": "libfuzzer", "driver": CONV_FUZZ, "replay_driver": CONV,
                    "quick": {"procs": 4, "runs": 6000, "max_len": 600},
                    "thorough": {"procs": 16, "runs": 40000, "max_len": 2048, "timeout": 7200}}],
    },
}


def _conv_stage(quick, thorough, args=None, procs_q=6):
    st = {"driver": CONV, "quick": {"procs": procs_q, "rc": quick}, "thorough": {"procs": 16, "rc": thorough, "timeout": 7200}}
    if args:
        st["args"] = args
    return st


# conversation parts of the table-callback properties: rollback, reload diff, expiry purge, stop
CHECKS["C09"]["stages"].append(_conv_stage((300, 100), (4000, 100)))
CHECKS["C09"]["engine"] = "rapidcheck + convsim"
CHECKS["C10"]["stages"].append(_conv_stage((300, 100), (4000, 100)))
CHECKS["C10"]["engine"] = "rapidcheck + convsim"
CHECKS["C10"]["rule"] += (" Stage conv: in generated conversations (see C03) the router-key callback log must equal the router-key table at every observation point "
                          "(after rollbacks, reload diffs - exactly the net difference -, expiry purges, stops).")
# C14: no byte sent stems from uninitialised memory — determinism under two dirtying patterns
CHECKS["C14"]["stages"].append(_conv_stage((200, 100), (3000, 100), ["--mode", "dirty"], procs_q=4))
CHECKS["C14"]["rule"] += (" Stage dirty: every conversation is run twice, with the stack below every transport call and every heap block of the library pre-filled with 0x00 resp. 0xFF; "
                          "the complete outbound byte log must be identical.")
# C17 (a): range check at initialisation
CHECKS["C17"]["stages"].insert(0, {"driver": INTERVALS, "quick": {"procs": 1, "rc": (3000, 100)}, "thorough": {"procs": 4, "rc": (200000, 100), "timeout": 3600}})
CHECKS["C17"]["exhaustive_note"] = "stage intervals: the 9x9x9 grid of boundary values (0, min-1, min, min+1, mid, max-1, max, max+1, 2^32-1) for refresh x expire x retry is enumerated completely for rtr_init and rtr_mgr_init"
CHECKS["C17"]["rule"] = ("Stage intervals: rtr_init and rtr_mgr_init are called with every triple of the 9-value boundary grid per interval (exhaustive, 729 triples) and with random triples: error iff some value is outside its RFC 8210 range, values stored unchanged otherwise. Stage conv: "
                         + CHECKS["C17"]["rule"])
# C18 (b): allocation failures during synchronisations
CHECKS["C18"]["stages"].append(_conv_stage((4, 40), (12, 60), ["--mode", "alloc"], procs_q=8))
CHECKS["C18"]["stages"][-1]["quick"]["args"] = ["--maxk", "600"]
CHECKS["C18"]["stages"][-1]["thorough"]["args"] = ["--maxk", "1000"]
CHECKS["C18"]["engine"] = "rapidcheck + per-fault re-execution + convsim"
CHECKS["C18"]["rule"] += (" Stage conv: for generated conversations (see C03) run 0 counts the allocations the library makes while synchronising (temporary PDU stores incl. >100 PDU payloads, shadow tables, hash-table growth, undo paths); "
                          "a conversation that ends converged must leave the ledger empty; then every allocation index (every k up to the stage's limit - 600 quick, 1000 thorough - else that many evenly spaced) is failed once: no crash, and all conversation oracles (either-or of C03, callbacks, convergence) must still hold.")

# thorough tier only: coverage-guided exploration (libFuzzer over the byte encoding of scripts) with the property's own oracles in the target
for _p in ("C03", "C05", "C07", "C08", "C13", "C14", "C17"):
    CHECKS[_p]["stages"].append({"type": "libfuzzer", "driver": CONV_FUZZ, "replay_driver": CONV, "tiers": ("thorough",), "seed_prop": "C04",
                                 "thorough": {"procs": 16, "runs": 8000, "max_len": 2048, "timeout": 7200}})
    CHECKS[_p]["rule"] += (" Thorough tier adds a libFuzzer stage (ASan+UBSan, coverage-guided) over the byte encoding of scripts with the same engine and oracles; "
                           "half of the workers start from the committed seed corpus, half from an empty one.")

# C06 tier B: real reader threads against the reload sequence (copy aside, load, swap, diff) — linearizability oracle (ASan) and races (TSan)
CHECKS["C06"]["stages"] += [
    {"driver": CONC, "args": ["--mode", "det"], "quick": {"procs": 2, "rc": (80, 80)}, "thorough": {"procs": 8, "rc": (1500, 200), "timeout": 7200}},
    {"driver": CONC, "args": ["--mode", "thr"], "replay_tries": 30, "replay_need": 1, "ddmin": False,
     "quick": {"procs": 2, "rc": (20, 100)}, "thorough": {"procs": 6, "rc": (500, 200), "timeout": 7200}},
    {"driver": CONC_TSAN, "args": ["--mode", "thr"], "replay_tries": 30, "replay_need": 1, "ddmin": False,
     "quick": {"procs": 3, "rc": (20, 100)}, "thorough": {"procs": 6, "rc": (500, 200), "timeout": 7200}},
]
CHECKS["C06"]["engine"] = "convsim + rapidcheck + pthreads (ASan, TSan)"
CHECKS["C06"]["rule"] += (" Stages conc (tier B): writer programs dominated by the reload sequence of rtr_sync (copy_except_socket into a fresh table, load the new set, swap, notify_diff, free) on both tables, "
                          "mixed with ordinary adds/removes; (det) battery at every lock release of the writer, (thr, ASan) 2-8 reader threads with the operation-counter linearizability oracle, "
                          "(thr, TSan) any data race report is a violation.")
CHECKS["C06"]["level_note"] = ("The conversation stages observe deterministically every state between critical sections; the threaded stages sample OS schedules (a replay reproduces the program, not the schedule); "
                               "an unlocked access is found by TSan on any overlap, without needing the bad outcome.")
