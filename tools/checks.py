"""Per-property configuration of the checks (drivers, budgets, evidence wording)."""

SHIM = ["shim/shim.c"]


def drv(name, sources, flavour="asan", **kw):
    d = {"name": name, "sources": sources + SHIM, "flavour": flavour, "ldflags": "-lrapidcheck"}
    d.update(kw)
    return d


TABLES = drv("tables", ["props/tables.cpp"])

ENGINES = [
    {"name": "rapidcheck-drivers", "path": "props/", "serves_properties": ["C01", "C02", "C09"],
     "kind_free_text": "C++17 rapidcheck drivers linked against rtrlib built from the working tree (ASan+UBSan subset, asserts on); model-based / stateful"},
]

NOT_APPLICABLE = {}

CHECKS = {
    "C01": {
        "level": "exploration",
        "rule": "rapidcheck generates operation histories (add / re-add / remove / near-miss remove / remove-by-source / nested chains / "
                "free) over a colliding universe of nested prefixes of 3 base addresses, both families, lengths 0..32/0..128, any "
                "max-length, AS in {0,1,2,3,65000,2^32-1}, 3 sources, with validation queries interleaved (stored prefix "
                "lengthened/shortened/sibling, host bits dirty or not, random). Oracle: RFC 6811 by linear scan over a std::set model, "
                "for pfx_table_validate, pfx_table_validate_r (+ reason multiset) and rtr_mgr_validate. evaluations = histories; "
                "non-trivial = a query with >=1 covering record issued after >=1 effective removal; distinct by hash(table contents, query).",
        "assumptions": ["stored records have host bits zero and length <= address width (constructed, as every caller does)",
                        "the reference model (model/pfx_model.hpp, 40 lines, linear scan) is correct"],
        "floor": {"quick": 500, "thorough": 5000},
        "technique": "model-based property testing (rapidcheck): differential against RFC 6811 by linear scan",
        "level_text": "Sampled exploration: tens of thousands of generated insert/remove histories per run, each followed by generated queries, "
                      "compared with an independent 40-line reference model. Finds order/shape-dependent lookup bugs and reachable assertions; "
                      "does not prove absence.",
        "level_note": "Trusts the std::set reference model and that stored records respect the table's precondition (host bits zero, length <= width).",
        "stages": [{"driver": TABLES,
                    "quick": {"procs": 8, "rc": (2500, 100)},
                    "thorough": {"procs": 16, "rc": (25000, 300), "timeout": 7200}}],
    },
    "C02": {
        "level": "exploration",
        "rule": "same generator as C01. After every operation the return code must equal the model's and the full enumeration of "
                "both families must equal the model set as a multiset. evaluations = histories; non-trivial = history containing a "
                "removal of the last record of a prefix that covers another stored prefix (node pull-up) or a remove-by-source that "
                "deletes >=1 and keeps >=1 record of the same family; distinct by hash of the whole history.",
        "assumptions": ["std::set model of the five-field record"],
        "floor": {"quick": 300, "thorough": 3000},
        "technique": "stateful model-based property testing (rapidcheck) against a std::set model, full-contents comparison after every operation",
        "level_text": "Sampled exploration of operation histories with an exact-contents oracle after every step (return codes + multiset equality of "
                      "the enumeration). Finds lost/duplicated/mis-attributed records for the histories generated; not a proof.",
        "level_note": "Trusts the std::set model; sources are compared by socket pointer identity as the library does.",
        "stages": [{"driver": TABLES,
                    "quick": {"procs": 8, "rc": (2500, 100)},
                    "thorough": {"procs": 16, "rc": (25000, 300), "timeout": 7200}}],
    },
    "C09": {
        "level": "exploration",
        "rule": "part (a): same table-operation generator as C02 with an update callback installed; a mirror set is updated only by the callback; "
                "'added' for a record the mirror holds or 'removed' for one it lacks fails at once; after every operation mirror == model == "
                "enumeration; after pfx_table_free the mirror must be empty. non-trivial = history with a remove-by-source over >=2 trie nodes, "
                "a free of a table holding >=2 records, or a node pull-up; distinct by hash of the history. "
                "part (b) (callbacks during rollback / reload / expiry / stop) is checked by the conversation simulator stage.",
        "assumptions": ["callbacks are delivered synchronously by the operation that causes them"],
        "floor": {"quick": 300, "thorough": 3000},
        "technique": "stateful property testing (rapidcheck): history invariant 'replay of the callback log == table contents'",
        "level_text": "Sampled exploration of operation histories with the change-log invariant evaluated after every operation.",
        "level_note": "Trusts the std::set model. Only single-threaded histories (the log is per table; ordering across threads is not part of the property).",
        "stages": [{"driver": TABLES,
                    "quick": {"procs": 8, "rc": (2500, 100)},
                    "thorough": {"procs": 16, "rc": (25000, 300), "timeout": 7200}}],
    },
}
