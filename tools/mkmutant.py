#!/usr/bin/env python3
"""mkmutant.py <name> <file-relative-to-repo> <old> <new>  -> mutants/<name>.diff (unified diff against /repo's working tree)"""
import difflib, sys
name, rel, old, new = sys.argv[1:5]
src = open('/repo/' + rel).read()
old = old.encode().decode('unicode_escape'); new = new.encode().decode('unicode_escape')
assert src.count(old) == 1, "pattern occurs %d times" % src.count(old)
dst = src.replace(old, new)
d = difflib.unified_diff(src.splitlines(True), dst.splitlines(True), 'a/' + rel, 'b/' + rel)
open('/verif/mutants/%s.diff' % name, 'w').write(''.join(d))
print('wrote mutants/%s.diff' % name)
