#!/bin/bash
cd "$(dirname "$0")/.."
VERIF_ORDER="${1:-C11 C12 C01 C02 C19 C20}" ./tools/run_all.sh thorough
