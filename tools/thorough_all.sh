#!/bin/bash
# the thorough tier of every property, conversation-engine properties first
cd "$(dirname "$0")/.."
VERIF_ORDER="C03 C05 C07 C08 C13 C14 C17 C06 C04 C18 C09 C10 C16 C15 C11 C12 C01 C02 C19 C20" ./tools/run_all.sh thorough
