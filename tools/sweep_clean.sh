#!/bin/bash
for s in 1 2 3; do for p in C03 C04 C05 C06 C07 C08 C09 C10 C13 C14 C17 C18; do echo "seed $s $(VERIF_SEED=$s ./run_check.sh $p quick 2>&1 | tail -1 | cut -c1-300)"; done; done
