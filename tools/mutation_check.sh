#!/bin/bash
# mutation_check.sh <patch> <Cnn> [tier]   — sensitivity: apply <patch> to a scratch copy of the
# repository (outside /repo and /verif), run the check against it, expect a VIOLATION, delete the copy.
# exit 0 = mutant caught, 1 = mutant survived, 2 = patch does not apply / check broken
set -u
PATCH="$(readlink -f "$1")"; PROP="$2"; TIER="${3:-quick}"
VERIF="$(cd "$(dirname "$0")/.." && pwd)"
SCR="$(mktemp -d /tmp/vmut.XXXXXX)"
trap 'rm -rf "$SCR"' EXIT
rsync -a --exclude _build --exclude .git /repo/ "$SCR/repo/"
if ! (cd "$SCR/repo" && patch -p1 -s < "$PATCH"); then echo "PATCH-FAILED $PATCH"; exit 2; fi
EV="$VERIF/evidence/$PROP.json"; [ -f "$EV" ] && cp "$EV" "$SCR/ev.json"
out=$(cd "$VERIF" && VERIF_REPO="$SCR/repo" ./run_check.sh "$PROP" "$TIER" 2>&1); rc=$?
# never keep replay files / evidence produced against a mutant
if [ -f "$SCR/ev.json" ]; then cp "$SCR/ev.json" "$EV"; else rm -f "$EV"; fi
echo "$out" | grep -o "replay=[^ ]*" | cut -d= -f2 | grep "/replays/" | xargs -r rm -f
echo "$out" | grep -E "^(VIOLATION|OK|BROKEN|failure)" | cut -c1-300
if [ $rc -eq 1 ] && echo "$out" | grep -q "^VIOLATION property=$PROP"; then echo "CAUGHT $(basename "$PATCH") by $PROP/$TIER"; exit 0; fi
if [ $rc -eq 0 ]; then echo "SURVIVED $(basename "$PATCH") vs $PROP/$TIER"; exit 1; fi
echo "CHECK-BROKEN rc=$rc"; exit 2
