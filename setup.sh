#!/bin/bash
# Offline setup: pre-build every library flavour and driver so that quick checks only pay
# for what changed in /repo.  Everything comes from files on disk.
cd "$(dirname "$0")"
mkdir -p build evidence replays
exec python3 tools/vr.py --build-all
